"""Hypothesis driver: generation only, collect-then-shrink (the test body never raises for
property failures; failures are recorded by the Recorder and minimised by vf.shrink)."""

from __future__ import annotations

import hypothesis
from hypothesis import HealthCheck, Phase, given, settings


def drive(strategy, fn, max_examples: int, seed: int):
    @hypothesis.seed(seed)
    @settings(
        max_examples=max_examples,
        database=None,
        deadline=None,
        derandomize=False,
        report_multiple_bugs=False,
        phases=[Phase.generate],
        suppress_health_check=list(HealthCheck),
        verbosity=hypothesis.Verbosity.quiet,
    )
    @given(strategy)
    def _t(x):
        fn(x)

    _t()
