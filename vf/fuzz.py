"""Coverage-guided campaign (atheris/libFuzzer) whose target runs a property's own oracle.

python -m vf.fuzz <PID> <outdir> <seed> <runs> <max_len> <corpus:empty|seeded>

The target never raises: failures go through the property's Recorder (known findings are
attributed by their matchers, i.e. excluded by predicate and counted), so libFuzzer keeps
searching behind the first finding.  State is flushed to <outdir>/rec.json periodically because
atexit handlers do not run under libFuzzer.
"""

from __future__ import annotations

import json
import os
import sys
import time


def main(argv):
    pid, outdir, seed, runs, max_len, corpus_kind = argv[0], argv[1], int(argv[2]), int(argv[3]), int(argv[4]), argv[5]
    import atheris

    from .common import REPO

    sys.path.insert(0, REPO)
    with atheris.instrument_imports(include=["peg_parser"]):
        import peg_parser.parser  # noqa: F401
        import peg_parser.subheader  # noqa: F401
        import peg_parser.tokenize  # noqa: F401
        import peg_parser.tokenizer  # noqa: F401
    from .rec import Recorder
    from .worker import load_prop

    mod = load_prop(pid)
    rec = Recorder(pid)
    state = {"n": 0, "last": time.monotonic()}
    recpath = os.path.join(outdir, "rec.json")

    def flush():
        tmp = recpath + ".tmp"
        with open(tmp, "w") as f:
            json.dump(rec.to_json(), f, default=repr)
        os.replace(tmp, recpath)

    def one(data: bytes):
        try:
            text = data.decode("utf-8", "surrogatepass")
        except UnicodeDecodeError:
            return
        state["n"] += 1
        nfail = len(rec.failures)
        mod.check(rec, {"src": text, "stream": "atheris"})
        if len(rec.failures) != nfail or state["n"] % 2000 == 0 or state["n"] >= runs - 1:
            flush()

    cdir = os.path.join(outdir, "corpus")
    os.makedirs(cdir, exist_ok=True)
    if corpus_kind == "seeded":
        from .gen import xonsh

        for i, s in enumerate(xonsh.xonsh_seeds()):
            if len(s.encode()) <= max_len * 2:
                with open(os.path.join(cdir, f"seed{i}"), "wb") as f:
                    f.write(s.encode())
    dpath = os.path.join(outdir, "dict.txt")
    with open(dpath, "w") as f:
        from .gen.soup import FRAGMENTS

        for frag in FRAGMENTS:
            b = frag.encode("utf-8", "surrogatepass")
            if 0 < len(b) <= 16:
                f.write('"' + "".join(f"\\x{c:02x}" for c in b) + '"\n')
    args = [sys.argv[0], cdir, f"-runs={runs}", f"-max_len={max_len}", f"-seed={seed or 1}", f"-dict={dpath}", "-timeout=120", "-rss_limit_mb=4096", "-print_final_stats=0", "-verbosity=0", f"-artifact_prefix={outdir}/"]
    atheris.Setup(args, one)
    flush()
    atheris.Fuzz()


import subprocess
import tempfile


def campaign(rec, ctx, pid, runs, max_len):
    td = tempfile.mkdtemp(prefix="vf-fuzz-", dir=os.environ.get("VERIF_WORKER_TMP"))
    kind = "empty" if ctx.k % 2 == 0 else "seeded"
    try:
        p = subprocess.run(
            [sys.executable, "-m", "vf.fuzz", pid, td, str(ctx.hseed("atheris") % 2_000_000_000), str(runs), str(max_len), kind],
            stdout=subprocess.DEVNULL,
            stderr=subprocess.PIPE,
            text=True,
            timeout=3600 * 3,
        )
    except subprocess.TimeoutExpired:
        rec.inconclusive["atheris-campaign-timeout"] += 1
        return
    path = os.path.join(td, "rec.json")
    if not os.path.exists(path):
        rec.notes["atheris"] = f"unavailable: {p.stderr[-300:]}"
        return
    with open(path) as f:
        d = json.load(f)
    rec.evaluations += d["evaluations"]
    rec.nontrivial.update(d["nontrivial"])
    rec.samples.extend(d["samples"][:2])
    rec.hist.update(d["hist"])
    rec.inconclusive.update(d["inconclusive"])
    for fid, v in d["known_hits"].items():
        slot = rec.known_hits.setdefault(fid, {"count": 0, "example": v["example"], "signature": v["signature"]})
        slot["count"] += v["count"]
    for slot in d["failures"]:
        cur = rec.failures.get(slot["signature"])
        if cur is None or slot["size"] < cur["size"]:
            rec.failures[slot["signature"]] = slot
    rec.notes["atheris"] = "ran"
    rec.hist[f"atheris-corpus:{kind}"] += d["evaluations"]



if __name__ == "__main__":
    main(sys.argv[1:])
