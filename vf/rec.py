"""Recorder: counts cases, non-trivial digests, histograms, samples and failure buckets for one worker."""

from __future__ import annotations

import json
import random
from collections import Counter

from . import known
from .common import digest

MAX_SAMPLES = 10


def case_size(case) -> int:
    return len(json.dumps(case, ensure_ascii=False, default=repr))


def derive(seed: int, *names) -> int:
    return int(digest(seed, *names), 16) & 0x7FFFFFFFFFFFFFFF


class Ctx:
    def __init__(self, pid: str, tier: str, seed: int, k: int, n: int):
        self.pid, self.tier, self.seed, self.k, self.n = pid, tier, seed, k, n

    @property
    def thorough(self) -> bool:
        return self.tier == "thorough"

    def rng(self, *names) -> random.Random:
        return random.Random(derive(self.seed, self.pid, self.k, *names))

    def hseed(self, *names) -> int:
        return derive(self.seed, self.pid, self.k, *names) & 0xFFFFFFFF

    def budget(self, quick: int, thorough: int) -> int:
        """total case budget of a stream divided among the workers"""
        total = thorough if self.thorough else quick
        scale = float(__import__("os").environ.get("VERIF_SCALE", "1"))
        return max(1, int(total * scale) // self.n)

    def shard(self, seq):
        """this worker's share of an enumerable sequence"""
        for i, x in enumerate(seq):
            if i % self.n == self.k:
                yield x


class Recorder:
    def __init__(self, pid: str, classify: bool = True):
        self.pid = pid
        self.classify = classify
        self.evaluations = 0
        self.nontrivial: set[str] = set()
        self.samples: list = []
        self._nt_seen = 0
        self.hist: Counter = Counter()
        self.excluded: Counter = Counter()
        self.inconclusive: Counter = Counter()
        self.failures: dict[str, dict] = {}
        self.known_hits: dict[str, dict] = {}
        self.raw: list[tuple[str, str]] = []
        self.notes: dict = {}

    # -- cases ------------------------------------------------------------------------------
    def case(self, case, nontrivial: bool, labels=(), key=None):
        self.evaluations += 1
        for lab in labels:
            self.hist[lab] += 1
        if nontrivial:
            d = digest(key if key is not None else case)
            if d not in self.nontrivial:
                self.nontrivial.add(d)
                self._nt_seen += 1
                n = self._nt_seen
                if len(self.samples) < 4 or (n & (n - 1) == 0 and len(self.samples) < MAX_SAMPLES):
                    self.samples.append(case)

    def count(self, label: str, n: int = 1):
        self.hist[label] += n

    def exclude(self, label: str, n: int = 1):
        self.excluded[label] += n

    # -- failures ---------------------------------------------------------------------------
    def fail(self, case, signature: str, detail):
        """record a property failure of `case`; bucketed by signature, or attributed to a known finding"""
        self.raw.append((signature, detail))
        fid = known.classify(self.pid, case, signature, detail) if self.classify else None
        if fid is not None:
            slot = self.known_hits.setdefault(fid, {"count": 0, "example": case, "signature": signature})
            slot["count"] += 1
            return fid
        slot = self.failures.get(signature)
        size = case_size(case)
        if slot is None:
            self.failures[signature] = {"count": 1, "case": case, "detail": detail, "size": size, "signature": signature}
        else:
            slot["count"] += 1
            if size < slot["size"]:
                slot.update(case=case, detail=detail, size=size)
        return None

    def to_json(self):
        return {
            "evaluations": self.evaluations,
            "nontrivial": sorted(self.nontrivial),
            "samples": self.samples,
            "hist": dict(self.hist),
            "excluded": dict(self.excluded),
            "inconclusive": dict(self.inconclusive),
            "failures": list(self.failures.values()),
            "known_hits": self.known_hits,
            "notes": self.notes,
        }
