"""Shared plumbing: importing the code under test, watchdog, canonical outcomes, AST comparison."""

from __future__ import annotations

import ast
import hashlib
import os
import signal
import sys
import traceback
import warnings

VERIF_DIR = os.path.dirname(os.path.dirname(os.path.abspath(__file__)))
REPO = os.environ.get("VERIF_REPO", "/repo")

sys.setrecursionlimit(20000)
warnings.simplefilter("ignore")

_loaded = {}


def repo_modules():
    """Import the code under test from the working tree (fresh per process)."""
    if not _loaded:
        if REPO not in sys.path:
            sys.path.insert(0, REPO)
        import peg_parser.parser as P
        import peg_parser.subheader as S
        import peg_parser.tokenize as T
        import peg_parser.tokenizer as TZ

        assert os.path.abspath(P.__file__).startswith(os.path.abspath(REPO)), P.__file__
        _loaded.update(P=P, S=S, T=T, TZ=TZ)
    return _loaded


def XonshParser():
    return repo_modules()["P"].XonshParser


def digest(*parts) -> str:
    h = hashlib.sha1()
    for p in parts:
        h.update(repr(p).encode("utf-8", "surrogatepass"))
        h.update(b"\0")
    return h.hexdigest()[:16]


# ----------------------------------------------------------------------------------------------
# watchdog


class SoftTimeout(BaseException):
    """Raised by the watchdog signal (SIGPROF, CPU time) inside the worker's main thread (BaseException: parsers must not swallow it)."""


def _on_alarm(signum, frame):
    raise SoftTimeout()


SOFT_LIMIT = float(os.environ.get("VERIF_SOFT_TIMEOUT", "10"))


class watchdog:
    def __init__(self, seconds: float | None = None):
        self.seconds = seconds or SOFT_LIMIT

    # The limit is CPU time of this process (ITIMER_PROF), not wall-clock time: the code under test is pure
    # computation, and a verdict must not depend on how busy the machine is.
    def __enter__(self):
        self.old = signal.signal(signal.SIGPROF, _on_alarm)
        signal.setitimer(signal.ITIMER_PROF, self.seconds)
        return self

    def __exit__(self, *exc):
        signal.setitimer(signal.ITIMER_PROF, 0)
        signal.signal(signal.SIGPROF, self.old)
        return False


# ----------------------------------------------------------------------------------------------
# outcomes


def innermost_repo_frame(tb) -> str:
    """file:function of the innermost traceback frame that lies in the code under test."""
    best = "?"
    for fs in traceback.extract_tb(tb):
        fn = fs.filename
        if "/peg_parser/" in fn or "/pegen/" in fn or "/tasks/" in fn:
            best = f"{os.path.basename(fn)}:{fs.name}"
    return best


def raising_site(tb) -> str:
    """like innermost_repo_frame, but the outermost raise_* / helper that explains the error kind."""
    names = [
        fs.name
        for fs in traceback.extract_tb(tb)
        if "/peg_parser/" in fs.filename
    ]
    for n in reversed(names):
        if n.startswith("raise_") or n in (
            "expect_forced",
            "check_version",
            "next_statement",
            "consume_macro_params",
            "_concat_strings_in_constant",
            "ensure_real",
            "ensure_imaginary",
            "check_fstring_conversion",
            "parse",
        ):
            return n
    return names[-1] if names else "?"


def syntax_error_fields(e: SyntaxError):
    return (
        type(e).__name__,
        e.msg,
        e.lineno,
        e.offset,
        getattr(e, "end_lineno", None),
        getattr(e, "end_offset", None),
        e.text,
        e.filename,
    )


class Outcome:
    """kind in {'tree','error','tokenerror','raise','hang'}"""

    __slots__ = ("kind", "tree", "exc", "fields", "site", "etype")

    def __init__(self, kind, tree=None, exc=None, fields=None, site=None, etype=None):
        self.kind = kind
        self.tree = tree
        self.exc = exc
        self.fields = fields
        self.site = site
        self.etype = etype

    def canon(self, filename=True):
        if self.kind == "tree":
            return ("tree", dump(self.tree))
        if self.kind == "error":
            f = self.fields if filename else self.fields[:-1]
            return ("error", *f)
        if self.kind == "tokenerror":
            return ("tokenerror", *self.fields)
        if self.kind == "raise":
            return ("raise", self.etype, self.site)
        return (self.kind,)

    def brief(self):
        c = self.canon()
        if c[0] == "tree":
            return ("tree", c[1][:300])
        return c


def dump(tree) -> str:
    try:
        return ast.dump(tree, include_attributes=True)
    except Exception as e:  # malformed tree: still a canonical string
        return f"<undumpable {type(e).__name__}: {e}>"


def classify_exception(e: BaseException) -> Outcome:
    T = repo_modules()["T"]
    if isinstance(e, SyntaxError):
        return Outcome("error", exc=e, fields=syntax_error_fields(e), site=raising_site(e.__traceback__), etype=type(e).__name__)
    if isinstance(e, T.TokenError):
        return Outcome("tokenerror", exc=e, fields=(str(e.args[0]) if e.args else "",), site=innermost_repo_frame(e.__traceback__), etype="TokenError")
    return Outcome("raise", exc=e, etype=type(e).__name__, site=innermost_repo_frame(e.__traceback__))


def outcome(src: str, mode: str = "exec", **opts) -> Outcome:
    """Canonical result of XonshParser.parse_string under the watchdog."""
    XP = XonshParser()
    try:
        with watchdog(SOFT_LIMIT + len(src) / 5000):  # (long inputs get proportionally more)
            tree = XP.parse_string(src, mode=mode, **opts)
        return Outcome("tree", tree=tree)
    except SoftTimeout:
        return Outcome("hang")
    except BaseException as e:  # noqa: BLE001 - classification is the point
        if isinstance(e, (KeyboardInterrupt, SystemExit)):
            raise
        return classify_exception(e)


def tokens_outcome(src: str):
    """('tokens', list) | ('error'|'tokenerror'|'raise'|'hang', Outcome)"""
    T = repo_modules()["T"]
    try:
        with watchdog():
            toks = list(T.generate_tokens(src))
        return "tokens", toks
    except SoftTimeout:
        return "hang", Outcome("hang")
    except BaseException as e:  # noqa: BLE001
        if isinstance(e, (KeyboardInterrupt, SystemExit)):
            raise
        o = classify_exception(e)
        return o.kind, o


class CpyOut:
    __slots__ = ("kind", "tree", "exc")

    def __init__(self, kind, tree=None, exc=None):
        self.kind, self.tree, self.exc = kind, tree, exc


def cpy(src: str, mode: str = "exec") -> CpyOut:
    """CPython's verdict: kind in {'tree','error','outside'}"""
    try:
        return CpyOut("tree", tree=ast.parse(src, mode=mode))
    except SyntaxError as e:
        return CpyOut("error", exc=e)
    except (ValueError, RecursionError, MemoryError, OverflowError) as e:
        return CpyOut("outside", exc=e)


# ----------------------------------------------------------------------------------------------
# AST comparison

_POS = ("lineno", "col_offset", "end_lineno", "end_col_offset")
_ABSENT = "<absent>"


def _const_key(v):
    return (type(v).__name__, repr(v))


def astdiff(exp, got, positions: bool = True, path: str = "", conv=None):
    """First difference between two trees as (path, kind, expected, got) or None.

    exp is the reference (normally CPython's tree).  `conv(node)->(l,c,el,ec)` optionally
    converts the reference node's position before comparison (used by known-finding matchers).
    """
    stack = [(exp, got, path)]
    while stack:
        e, g, p = stack.pop()
        if isinstance(e, ast.AST):
            if not isinstance(g, ast.AST) or type(e).__name__ != type(g).__name__:
                return (p, "class", type(e).__name__, type(g).__name__ if isinstance(g, ast.AST) else repr(g)[:80])
            if positions and hasattr(e, "lineno"):
                ep = tuple(getattr(e, a, _ABSENT) for a in _POS)
                if conv is not None:
                    ep = conv(e, ep)
                gp = tuple(getattr(g, a, _ABSENT) for a in _POS)
                if ep != gp:
                    return (p + f"<{type(e).__name__}>", "position", ep, gp)
            todo = []
            for f in e._fields:
                ev = getattr(e, f, _ABSENT)
                gv = getattr(g, f, _ABSENT)
                if ev is _ABSENT and gv is _ABSENT:
                    continue
                if gv is _ABSENT:
                    return (f"{p}.{f}", "absent-field", _short(ev), _ABSENT)
                if ev is _ABSENT:
                    return (f"{p}.{f}", "extra-field", _ABSENT, _short(gv))
                todo.append((ev, gv, f"{p}.{f}"))
            stack.extend(reversed(todo))
        elif isinstance(e, list):
            if not isinstance(g, list):
                return (p, "not-a-list", f"list[{len(e)}]", _short(g))
            if len(e) != len(g):
                return (p, "length", len(e), len(g))
            stack.extend(reversed([(ev, gv, f"{p}[{i}]") for i, (ev, gv) in enumerate(zip(e, g))]))
        else:
            if isinstance(g, (ast.AST, list)):
                return (p, "value", _short(e), _short(g))
            if _const_key(e) != _const_key(g):
                return (p, "value", _short(e), _short(g))
    return None


def _short(v):
    if isinstance(v, ast.AST):
        return type(v).__name__
    if isinstance(v, list):
        return f"list[{len(v)}]"
    return repr(v)[:80]


def erase_indices(path: str) -> str:
    import re

    return re.sub(r"\[\d+\]", "[]", path)


def diff_signature(d) -> str:
    """bucket key for a difference: kind + what differs, without the path (one root cause = one bucket)"""
    p, kind, e, g = d
    last = erase_indices(p).split(".")[-1]
    if kind == "position":
        which = []
        if e[:2] != g[:2]:
            which.append("start")
        if e[2:] != g[2:]:
            which.append("end")
        node = last[last.index("<") :] if "<" in last else ""
        return f"position:{node}:{'+'.join(which)}"
    if kind == "class":
        return f"class:{last}:{e}->{g}"
    if kind in ("absent-field", "extra-field", "not-a-list", "length"):
        return f"{kind}:{last}"
    return f"value:{last}"


def node_classes(tree) -> set:
    return {type(n).__name__ for n in ast.walk(tree)}


def ast_depth(tree) -> int:
    best = 0
    stack = [(tree, 1)]
    while stack:
        n, d = stack.pop()
        best = max(best, d)
        for c in ast.iter_child_nodes(n):
            stack.append((c, d + 1))
    return best
