"""One worker process: runs a property's search (or a replay list) and writes a partial record."""

from __future__ import annotations

import importlib
import json
import os
import subprocess
import sys
import tempfile
import time

from .rec import Ctx, Recorder
from .shrink import shrink_case

MAX_BUCKETS_SHRUNK = 6


def load_prop(pid: str):
    return importlib.import_module(f"vf.props.{pid.lower()}")


def replay_cases(mod, pid: str, cases: list) -> list:
    """[(case, unknown_failures[{signature,detail}], known_hits{fid:sig})]"""
    out = []
    for case in cases:
        r = Recorder(pid)
        mod.check(r, case)
        out.append(
            {
                "case": case,
                "failures": [{"signature": s, "detail": v["detail"]} for s, v in r.failures.items()],
                "known": {fid: v["signature"] for fid, v in r.known_hits.items()},
                "raw": [s for s, _ in r.raw],
            }
        )
    return out


def confirm_hang(pid: str, case) -> bool:
    """re-run alone in a fresh interpreter with a 60 s hard limit; only a second timeout counts"""
    with tempfile.NamedTemporaryFile("w", suffix=".json", delete=False) as f:
        json.dump([case], f)
        inp = f.name
    outp = inp + ".out"
    env = dict(os.environ, VERIF_SOFT_TIMEOUT="50")
    try:
        subprocess.run(
            [sys.executable, "-m", "vf.worker", "replay", pid, inp, outp],
            timeout=60,
            env=env,
            stdout=subprocess.DEVNULL,
            stderr=subprocess.DEVNULL,
        )
        with open(outp) as f:
            res = json.load(f)
        return any(s.startswith("hang") for s in res[0]["raw"])
    except subprocess.TimeoutExpired:
        return True
    except Exception:
        return False
    finally:
        for p in (inp, outp):
            if os.path.exists(p):
                os.unlink(p)


def fresh_replay_signatures(pid: str, case) -> set:
    """signatures of the unknown failures of one case replayed in a fresh interpreter (history-sensitive properties)"""
    with tempfile.NamedTemporaryFile("w", suffix=".json", delete=False) as f:
        json.dump([case], f)
        inp = f.name
    outp = inp + ".out"
    try:
        subprocess.run([sys.executable, "-m", "vf.worker", "replay", pid, inp, outp], timeout=300, stdout=subprocess.DEVNULL, stderr=subprocess.DEVNULL)
        with open(outp) as f:
            res = json.load(f)
        return {x["signature"] for x in res[0]["failures"]}
    except Exception:
        return set()
    finally:
        for p in (inp, outp):
            if os.path.exists(p):
                os.unlink(p)


def finish(mod, pid: str, rec: Recorder, shrink: bool = True):
    """confirm hangs, minimise one representative per bucket"""
    fields = getattr(mod, "SHRINK_FIELDS", ("src",))
    for sig in list(rec.failures):
        slot = rec.failures[sig]
        if sig.startswith("hang") and not confirm_hang(pid, slot["case"]):
            rec.inconclusive["soft-timeout-not-confirmed"] += slot["count"]
            del rec.failures[sig]
    if not shrink:
        return
    for sig in sorted(rec.failures, key=lambda s: rec.failures[s]["size"])[:MAX_BUCKETS_SHRUNK]:
        slot = rec.failures[sig]
        if sig.startswith("hang"):
            continue  # each probe would cost a timeout

        def still(c, sig=sig):
            if getattr(mod, "FRESH_PROCESS_REPLAY", False):
                return sig in fresh_replay_signatures(pid, c)
            r = Recorder(pid)
            mod.check(r, c)
            return sig in r.failures

        try:
            small = slot["case"]
            cands = getattr(mod, "candidates", None)
            if cands is not None:
                # structured minimisation: greedy descent over property-specific smaller candidates
                deadline = time.monotonic() + (90.0 if getattr(mod, "FRESH_PROCESS_REPLAY", False) else 20.0)
                progress = True
                while progress and time.monotonic() < deadline:
                    progress = False
                    for c in cands(small):
                        if time.monotonic() > deadline:
                            break
                        try:
                            ok = still(c)
                        except Exception:
                            ok = False
                        if ok:
                            small, progress = c, True
                            break
            small = shrink_case(small, fields, still, budget_s=15.0)
            r = Recorder(pid)
            mod.check(r, small)
            if sig in r.failures:
                slot["case"] = small
                slot["detail"] = r.failures[sig]["detail"]
                slot["shrunk"] = True
        except Exception as e:  # shrinking is best effort
            slot["shrink_error"] = repr(e)


def main(argv):
    mode = argv[0]
    if mode == "search":
        pid, tier, seed, k, n, outp = argv[1], argv[2], int(argv[3]), int(argv[4]), int(argv[5]), argv[6]
        mod = load_prop(pid)
        rec = Recorder(pid)
        ctx = Ctx(pid, tier, seed, k, n)
        t0 = time.monotonic()
        mod.search(rec, ctx)
        finish(mod, pid, rec)
        data = rec.to_json()
        data["wall"] = time.monotonic() - t0
        with open(outp, "w") as f:
            json.dump(data, f, default=repr)
    elif mode == "replay":
        pid, inp, outp = argv[1], argv[2], argv[3]
        mod = load_prop(pid)
        with open(inp) as f:
            cases = json.load(f)
        res = replay_cases(mod, pid, cases)
        with open(outp, "w") as f:
            json.dump(res, f, default=repr)
    else:
        raise SystemExit(f"unknown mode {mode}")


if __name__ == "__main__":
    main(sys.argv[1:])
