"""C07 -- macros receive the verbatim source text of their arguments/body."""

from __future__ import annotations

import ast
import textwrap

from hypothesis import strategies as st

from .. import known
from ..common import astdiff, cpy, diff_signature, outcome
from ..gen import xonsh
from ..hyp import drive

META = {
    "level": "exploration",
    "rule": (
        "inputs: (1) call macros callee!(a1,..,an[,]) whose arguments are token soup with balanced ()[]{} and complete strings (keywords, "
        "operators, xonsh constructs, strings containing commas/brackets/quotes, nested bracket groups with commas, comments and newlines inside "
        "brackets, arbitrary blanks), placed in 11 statement contexts and followed by other code; (2) subprocess macros '<open> [words] cmd! rest "
        "<close>' for the four forms with rest = words, strings, balanced ()/[] groups; (3) with-macros 'with! ctx [as t]:' + block (nested "
        "indentation, blank lines, comments, multi-line brackets, spaces or tabs) or one-line form, at top level and nested in if/def/for, "
        "followed by 0-3 blank lines and a normal statement or end of input.  Oracle: expected texts come from the GENERATED structure (an "
        "independent character scanner re-derives the call-macro split as a self-check): call macro args verbatim (whitespace-only slice after a "
        "trailing comma dropped); subprocess macro args = preceding words, 'cmd', rest.strip(); with-macro body in {dedent(block), dedent(block + "
        "trailing blank lines)}, one-line form = rest of the logical line; the surrounding/following code must equal ast.parse of the program "
        "with the macro replaced by M(0) (call macros) or of the following statement line-shifted (with-macros).  non-trivial = an argument/body "
        "contains a bracket group with a comma, a string with a delimiter character or a nested indentation level; distinct by text."
    ),
    "assumptions": ["backslash continuations inside macro arguments and comment lines at lower indentation right after a block are not generated (behaviour not specified / listed separately)"],
}


def find_calls(tree, name):
    out = []
    for n in ast.walk(tree):
        if isinstance(n, ast.Call) and isinstance(n.func, ast.Attribute) and n.func.attr == name and isinstance(n.func.value, ast.Name) and n.func.value.id == "__xonsh__":
            out.append(n)
    return out


class _Replace(ast.NodeTransformer):
    def __init__(self, target, new):
        self.target, self.new = target, new

    def visit_Call(self, node):
        if node is self.target:
            return self.new
        return self.generic_visit(node)


def const_strings(tup):
    if not isinstance(tup, ast.Tuple):
        return None
    vals = []
    for e in tup.elts:
        if not (isinstance(e, ast.Constant) and isinstance(e.value, str)):
            return None
        vals.append(e.value)
    return vals


def check_call_macro(rec, case):
    macro, args, callee, ctx = case["macro"], case["args"], case["callee"], case["ctx"]
    src = ctx.replace("{M}", macro)
    ref_src = ctx.replace("{M}", "M(0)")
    inner = macro[len(callee) + 2 : -1]
    parts = xonsh.split_top_level(inner)
    if parts and parts[-1].strip() == "" and len(parts) > 1:
        parts = parts[:-1]
    if parts != args:
        rec.exclude("generator-self-check-failed(call-macro)")
        return
    nt = any(("," in a) or any(ch in a for ch in "([{") for a in args)
    rec.case(case, nt, labels=("kind:call-macro", f"nargs:{len(args)}", f"ctx:{ctx.split('{M}')[0].strip()[:10] or 'bare'}"), key=src)
    o = outcome(src, "exec")
    if o.kind != "tree":
        cn = o.canon()
        rec.fail(dict(case, src=src), f"call-macro-rejected:{cn[0]}:{o.etype}:{(cn[2] if len(cn) > 2 else '')[:30]}", {"outcome": [str(x)[:200] for x in cn], "src": src})
        return
    calls = find_calls(o.tree, "call_macro")
    if len(calls) != 1:
        rec.fail(dict(case, src=src), "call-macro-count", {"found": len(calls), "src": src})
        return
    call = calls[0]
    if len(call.args) != 4:
        rec.fail(dict(case, src=src), "call-macro-arity", {"src": src})
        return
    got = const_strings(call.args[1])
    if got != args:
        rec.fail(dict(case, src=src), "call-macro-args" + (":whitespace-only" if got is not None and [g.strip() for g in got] == [a.strip() for a in args] else ""), {"expected": args, "got": got, "src": src})
        return
    if astdiff(ast.parse(callee, mode="eval").body, call.args[0], positions=False) is not None:
        rec.fail(dict(case, src=src), "call-macro-callee", {"expected": callee, "got": ast.unparse(call.args[0]), "src": src})
        return
    # code around and after the macro is parsed as if the macro were an ordinary call
    ref = cpy(ref_src)
    if ref.kind != "tree":
        return
    new = ast.Call(func=ast.Name(id="M", ctx=ast.Load()), args=[ast.Constant(value=0)], keywords=[])
    tree2 = _Replace(call, new).visit(o.tree)
    from .c10 import strip_empty_spec_constants  # CPython's own artefacts inside format specs (see C10)

    d = astdiff(strip_empty_spec_constants(ref.tree), strip_empty_spec_constants(tree2), positions=False)
    if d is not None:
        rec.fail(dict(case, src=src), "call-macro-surroundings:" + diff_signature(d), {"path": d[0], "expected": d[2], "got": d[3], "src": src})


def check_proc_macro(rec, case):
    text, fn, pre, cmd, rest = case["text"], case["fn"], case["pre"], case["cmd"], case["rest"]
    nt = any(ch in rest for ch in "([,'\"")
    rec.case(case, nt, labels=("kind:proc-macro", f"form:{text[:2]}"), key=text)
    follow = case.get("follow", "")
    o = outcome(text + "\n" + follow, "exec")
    if o.kind != "tree":
        cn = o.canon()
        rec.fail(dict(case, src=text + "\n" + follow), f"proc-macro-rejected:{cn[0]}:{o.etype}", {"outcome": [str(x)[:200] for x in cn], "src": text + "\n" + follow})
        return
    if follow:  # code after the macro is parsed as usual
        ref = cpy(follow)
        if ref.kind == "tree":
            after = o.tree.body[1:]
            if len(after) != len(ref.tree.body) or any(astdiff(e, g, positions=False) is not None for e, g in zip(ref.tree.body, after)):
                rec.fail(dict(case, src=text + "\n" + follow), "proc-macro-following-code-differs", {"src": text + "\n" + follow})
                return
    calls = find_calls(o.tree, fn)
    if len(calls) != 1:
        rec.fail(dict(case, src=text), "proc-macro-call-count", {"found": len(calls), "src": text})
        return
    got = []
    for a in calls[0].args:
        if not (isinstance(a, ast.Constant) and isinstance(a.value, str)):
            rec.fail(dict(case, src=text), "proc-macro-arg-not-constant", {"got": ast.unparse(a)[:80], "src": text})
            return
        got.append(a.value)
    expected = pre + [cmd, rest.strip()]
    if got != expected:
        rec.fail(dict(case, src=text), "proc-macro-args", {"expected": expected, "got": got, "src": text})


def check_with_macro(rec, case):
    src = case["src"]
    one_line = case["one_line"]
    nt = (not one_line and any(ln.startswith(case["base"] + " " * 5) or "\t\t" in ln or "[1," in ln for ln in case["block"])) or (one_line and any(ch in case["body"] for ch in "[;'"))
    rec.case(case, nt, labels=("kind:with-macro", "form:one-line" if one_line else "form:block", f"outer:{case['outer'].split(' ')[0] or 'none'}", f"blanks:{case['blanks']}", "follow:yes" if case["follow"] else "follow:eof"), key=src)
    o = outcome(src, "exec")
    if o.kind != "tree":
        cn = o.canon()
        rec.fail(case, f"with-macro-rejected:{cn[0]}:{o.etype}:{(cn[2] if len(cn) > 2 else '')[:30]}", {"outcome": [str(x)[:200] for x in cn]})
        return
    calls = find_calls(o.tree, "enter_macro")
    if len(calls) != 1 or len(calls[0].args) != 4 or not isinstance(calls[0].args[1], ast.Constant):
        rec.fail(case, "with-macro-shape", {"found": len(calls)})
        return
    got = calls[0].args[1].value
    if one_line:
        exp = case["body"]
        if got.rstrip("\n") != exp:
            rec.fail(case, "with-macro-one-line-body", {"expected": exp, "got": got})
            return
    else:
        block = "\n".join(case["block"]) + "\n"
        allowed = {textwrap.dedent(block)}
        for k in range(1, case["blanks"] + 1):
            allowed.add(textwrap.dedent(block + "\n" * k))
        if not src.endswith("\n"):  # the last physical line has no newline to pass on
            allowed.add(textwrap.dedent(block)[:-1])
        if got not in allowed:
            rec.fail(case, "with-macro-block-body", {"expected_one_of": sorted(allowed)[:2], "got": got})
            return
    # the statement after the block is parsed normally
    follow = case["follow"]
    if follow:
        ref = cpy(textwrap.dedent(follow))
        if ref.kind != "tree":
            # xonsh statement ($Y = 3): compare with our own parse of it alone
            ro = outcome(textwrap.dedent(follow), "exec")
            if ro.kind != "tree":
                return
            ref_body = ro.tree.body
        else:
            ref_body = ref.tree.body
        # locate: last statements of the innermost body that contains the With
        container = find_container(o.tree, calls[0])
        if container is None:
            rec.fail(case, "with-macro-container-not-found", {})
            return
        body, idx = container
        after = body[idx + 1 :]
        if len(after) != len(ref_body):
            rec.fail(case, "with-macro-following-statements", {"expected": len(ref_body), "got": len(after), "got_src": [ast.unparse(s)[:60] for s in after]})
            return
        for e, g in zip(ref_body, after):
            d = astdiff(e, g, positions=False)
            if d is not None:
                rec.fail(case, "with-macro-following-tree:" + diff_signature(d), {"path": d[0], "expected": d[2], "got": d[3]})
                return
        # line numbers of the following statements
        first_line = src[: src.rindex(follow)].count("\n") + 1 if follow in src else None
        if first_line is not None and after and after[0].lineno != first_line:
            rec.fail(case, "with-macro-following-lineno", {"expected": first_line, "got": after[0].lineno})


def find_container(tree, call):
    for n in ast.walk(tree):
        for f in ("body", "orelse", "finalbody"):
            body = getattr(n, f, None)
            if isinstance(body, list):
                for i, s in enumerate(body):
                    if isinstance(s, ast.With) and any(call is w.context_expr for w in s.items):
                        return body, i
    return None


LATER_ERRORS = ["x = (1,\n 2\ny = 3\n", "q = [a b (c]\n", "x = (1 2)\n", "if a\n  pass\n", "f(a=1, b)\n", "z = 1 +\n", "k = 'abc\n", "  q = 1\n", "d = {1: 2,\n 3}\nf(a for a in b, c)\n", "for x in y z: pass\n", "print x\n"]


def check_then_error(rec, case):
    """code after a macro is 'unaffected by the macro' also when that code is wrong: the report is the one the same
    code gets when the macro is replaced by an ordinary call / with-block occupying the same lines"""
    macro_src, follow, plain = case["macro_src"], case["follow"], case["plain_src"]
    a = outcome(macro_src + follow, "exec")
    b = outcome(plain + follow, "exec")
    rec.case(case, b.kind == "error", labels=("kind:macro-then-error", f"macro:{case.get('mkind', '?')}", f"reference:{b.kind}"), key=(macro_src, follow))
    if outcome(macro_src, "exec").kind != "tree":
        rec.exclude("macro-part-not-accepted-alone")
        return
    if a.canon() != b.canon():
        rec.fail(dict(case, src=macro_src + follow), f"error-after-macro-differs:{b.kind}->{a.kind}", {"with_macro": [str(x)[:160] for x in a.canon()], "with_plain_statements": [str(x)[:160] for x in b.canon()], "src": macro_src + follow})


def check_blank_argument(rec, case):
    """an argument is the text between two top-level commas: nothing or blanks there is no argument (an error, as
    in an ordinary call); blanks before the closing parenthesis are not an argument"""
    src = case["src"]
    o = outcome(src, "exec")
    rec.case(case, True, labels=("kind:blank-argument", f"expect:{case['expect']}"), key=src)
    if case["expect"] == "error":
        if o.kind != "error":
            rec.fail(case, f"blank-macro-argument-not-rejected:{o.kind}", {"src": src, "got": [str(x)[:160] for x in o.canon()]})
        return
    calls = find_calls(o.tree, "call_macro") if o.kind == "tree" else []
    got = [a.value for a in calls[0].args[1].elts] if len(calls) == 1 else None
    if got != case["args"]:
        rec.fail(case, "call-macro-args:trailing-blank", {"src": src, "expected": case["args"], "got": got})


def check(rec, case):
    k = case["kind"]
    if k == "blank-argument":
        check_blank_argument(rec, case)
    elif k == "then-error":
        check_then_error(rec, case)
    elif k == "call":
        check_call_macro(rec, case)
    elif k == "proc":
        check_proc_macro(rec, case)
    else:
        check_with_macro(rec, case)


SHRINK_FIELDS = ()


def search(rec, ctx):
    def call(rnd):
        check(rec, dict(xonsh.call_macro_case(rnd), kind="call"))

    drive(st.randoms(use_true_random=False), call, ctx.budget(10000, 120000), ctx.hseed("call"))

    def proc(rnd):
        check(rec, dict(xonsh.proc_macro_case(rnd), kind="proc"))

    drive(st.randoms(use_true_random=False), proc, ctx.budget(5000, 60000), ctx.hseed("proc"))

    def withm(rnd):
        check(rec, dict(xonsh.with_macro_case(rnd), kind="with"))

    for b in ctx.shard(["", " ", "  ", "\t", "\n  ", " \n"]):
        for tmpl in ("f!(a,{B},b)", "f!({B},a)", "x = g.h!(a b,{B}, c d)\n", "f!(a,{B},)", "f!({B},)", "f!((1, 2),{B},[3])"):
            check(rec, {"kind": "blank-argument", "src": tmpl.replace("{B}", b), "expect": "error"})
        for tmpl, args in (("f!(a,{B})", ["a"]), ("f!(a, b,{B})", ["a", " b"]), ("f!({B})", [])):
            check(rec, {"kind": "blank-argument", "src": tmpl.replace("{B}", b), "expect": "args", "args": args})

    def then_error(rnd):
        r = rnd.random()
        if r < 0.4:
            c = xonsh.call_macro_case(rnd)
            msrc, mkind = c["ctx"].replace("{M}", c["macro"]), "call"
            plain = c["ctx"].replace("{M}", "M(" + "\n" * c["macro"].count("\n") + "0)")
        elif r < 0.65:
            t = xonsh.proc_macro_case(rnd)["text"]
            msrc, mkind = "r = " + t + "\n", "proc"
            plain = "r = M(" + "\n" * t.count("\n") + "0)\n"
        else:
            c = xonsh.with_macro_case(rnd)
            if c["follow"] or c["outer"] or not c["src"].endswith("\n"):
                return  # keep the macro the last thing before the faulty code, at top level
            msrc, mkind = c["src"], "with"
            head = msrc.split("\n", 1)[0]
            if c["one_line"]:
                plain = "with M: pass\n" + "\n" * (msrc.count("\n") - 1)
            else:
                first = next(ln for ln in c["block"] if ln.strip() and not ln.strip().startswith("#"))
                ind = first[: len(first) - len(first.lstrip())]
                plain = "with M:\n" + "".join((ind + "pass\n") if ln.strip() else "\n" for ln in c["block"]) + "\n" * c["blanks"]
        follow = rnd.choice(LATER_ERRORS)
        if mkind == "with" and follow[:1] in " \t":
            return  # an indented line after a with! block is part of the block's text, whatever it says
        check(rec, {"kind": "then-error", "macro_src": msrc, "plain_src": plain, "mkind": mkind, "follow": follow})

    drive(st.randoms(use_true_random=False), then_error, ctx.budget(3000, 40000), ctx.hseed("then-error"))

    drive(st.randoms(use_true_random=False), withm, ctx.budget(8000, 100000), ctx.hseed("with"))
