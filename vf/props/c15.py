"""C15 -- options only do what they say: verbose is inert, py_version gating is monotone."""

from __future__ import annotations

import ast
import contextlib
import io

from hypothesis import strategies as st

from ..common import outcome
from ..gen import corpus, mutate, xonsh
from ..gen.pysrc import PyGen
from ..hyp import drive

META = {
    "level": "exploration",
    "rule": (
        "inputs: G1 programs/expressions, corpus statements, xonsh seeds, G4 mutations (invalid), and programs using except*, type parameter "
        "lists and type statements (valid and broken variants), each evaluated in every cell of verbose in {False,True} x py_version in "
        "{None,(3,8)..(3,13)} x mode in {exec,eval} (stdout discarded); plus 8 families of long left-associative chains / statement runs / pipelines "
        "(300..2500 links) parsed quietly and with verbose under the interpreter's default recursion limit; gated programs and a sixth of the others are "
        "also written to a file and parsed with parse_file in every py_version cell (and verbose in two): the outcome equals parse_string's.  Oracles: (1) verbose-inert: the canonical outcome (tree dump with "
        "positions, or exception class/message/position/text) is identical with and without verbose in every cell; (2) gating: need = (3,12) if "
        "the default tree contains TypeAlias or non-empty type_params, (3,11) if it contains TryStar, else none; for an accepted input every "
        "py_version >= need gives the default outcome and every py_version < need gives a SyntaxError whose message names need; for a rejected "
        "input every cell is a SyntaxError/TokenError and cells >= (3,12) equal the default.  non-trivial = input of >= 15 tokens with a call, a "
        "subscript and a binary operator (memoised left recursion + backtracking), or a gated construct; distinct by text."
    ),
    "assumptions": ["verbose output goes to sys.stdout and is discarded by redirecting it for the duration of the call (single-threaded)"],
}

VERSIONS = [None, (3, 8), (3, 9), (3, 10), (3, 11), (3, 12), (3, 13)]
GATED = [
    "type X = int\n", "type X[T] = list[T]\n", "def f[T](a: T) -> T: return a\n", "class A[T, *Ts, **P]: pass\n", "try:\n    a\nexcept* E:\n    b\n",
    "try:\n    a\nexcept* (E, F) as g:\n    b\nelse:\n    c\nfinally:\n    d\n", "async def f[T: int](): pass\n", "x = 1\ntype Y = x\nz = 2\n",
    "def outer():\n    def f[T](): pass\n    try:\n        pass\n    except* E:\n        pass\n", "type X = \n", "def f[T(): pass\n", "try:\n    a\nexcept* :\n    b\n", "class A[]: pass\n",
    "type = 1\ntype.x = 2\nprint(type)\n", "match type:\n    case type: pass\n",
]


def needs_of(tree):
    """all version gates present in the tree"""
    needs = set()
    for n in ast.walk(tree):
        if isinstance(n, ast.TypeAlias) or getattr(n, "type_params", None):
            needs.add((3, 12))
        if isinstance(n, ast.TryStar):
            needs.add((3, 11))
    return needs


def need_of(tree):
    needs = needs_of(tree)
    return max(needs) if needs else None


class Discard(io.TextIOBase):
    def write(self, s):
        return len(s)


class AsciiSink(io.TextIOBase):
    """a stream that, like a terminal under LC_ALL=C, refuses what it cannot encode"""

    def write(self, s):
        s.encode("ascii")
        return len(s)


def run(src, mode, verbose, version):
    opts = {"verbose": verbose}
    if version is not None:
        opts["py_version"] = version
    if verbose:
        # the trace goes to sys.stdout: discarded -- for non-ASCII sources into a stream that only takes ASCII
        with contextlib.redirect_stdout(Discard() if src.isascii() else AsciiSink()):
            return outcome(src, mode, **opts)
    return outcome(src, mode, **opts)


CHAINS = {
    "binop": lambda n: "+".join(f"a{i}" for i in range(n)),
    "attribute": lambda n: "a" + ".b" * n,
    "call": lambda n: "f" + "()" * n,
    "subscript": lambda n: "a" + "[0]" * n,
    "mixed": lambda n: "a" + ".b()[0]" * (n // 3),
    "compare-and-bool": lambda n: " or ".join(f"a{i} < {i}" for i in range(n // 2)),
    "statements": lambda n: "".join(f"x{i} = f(a.b)[{i}] + 1\n" for i in range(n)),
    "nested-parens": lambda n: "(" * (n // 30) + "a" + ")" * (n // 30),
    "nested-lists": lambda n: "[" * (n // 32) + "a" + "]" * (n // 32),
    "nested-calls": lambda n: "f(" * (n // 24) + "a" + ")" * (n // 24),
    "nested-dicts": lambda n: "{1: " * (n // 34) + "a" + "}" * (n // 34),
    "nested-blocks": lambda n: "".join(" " * i + "if a:\n" for i in range(n // 7)) + " " * (n // 7) + "x = 1\n",
    "pipeline": lambda n: "$(" + " | ".join(f"c{i} -x" for i in range(n // 2)) + ")",
}


def check_deep(rec, case):
    """verbose must stay inert on long inputs too, under the interpreter's *default* recursion limit: the parser builds
    left-associative chains iteratively, so what it accepts quietly it must accept while tracing"""
    import sys

    src = CHAINS[case["family"]](case["n"]) if "family" in case else case["src"]
    mode = case.get("mode", "eval")
    old = sys.getrecursionlimit()
    sys.setrecursionlimit(1000)
    try:
        quiet = run(src, mode, False, None)
        loud = run(src, mode, True, None)
    finally:
        sys.setrecursionlimit(old)
    rec.case(case, quiet.kind == "tree", labels=("stream:deep-chain", f"family:{case.get('family', '?')}", f"base-{mode}:{quiet.kind}"), key=(src, "deep"))
    if quiet.kind == "hang" or loud.kind == "hang":
        rec.inconclusive["deep-chain-timeout"] += 1
        return
    def key(o):  # (where exactly the interpreter's stack ran out is not part of the outcome)
        return ("raise", o.etype) if o.kind == "raise" and o.etype == "RecursionError" else o.canon()

    if key(quiet) != key(loud):
        rec.fail(case, f"verbose-changes-outcome:{quiet.kind}->{loud.kind}", {"mode": mode, "py_version": None, "recursion_limit": 1000, "quiet": [str(x)[:120] for x in quiet.brief()], "verbose": [str(x)[:200] for x in loud.brief()]})


def check(rec, case):
    if case.get("deep"):
        return check_deep(rec, case)
    return check_cells(rec, case)


def interesting(tree) -> bool:
    kinds = {type(n).__name__ for n in ast.walk(tree)}
    return {"Call", "Subscript", "BinOp"} <= kinds


def check_cells(rec, case):
    src = case["src"]
    modes = case.get("modes", ["exec", "eval"])
    stream = case.get("stream", "?")
    nt = False
    results = {}
    for mode in modes:
        base = run(src, mode, False, None)
        results[(mode, False, None)] = base
        need = need_of(base.tree) if base.kind == "tree" else None
        if base.kind == "tree" and (need is not None or (interesting(base.tree) and len(src.split()) >= 8)):
            nt = True
        for v in VERSIONS:
            for verbose in (False, True):
                if v is None and not verbose:
                    continue
                if verbose and case.get("skip_verbose"):
                    continue
                results[(mode, verbose, v)] = run(src, mode, verbose, v)
    rec.case(case, nt, labels=(f"stream:{stream}",) + tuple(f"base-{m}:{results[(m, False, None)].kind}" for m in modes), key=src)
    rec.count("cells", len(results))
    # the file entry point takes the same options: every py_version cell of parse_file equals the parse_string cell
    if "exec" in modes and (stream.startswith("gated") or len(src) % 6 == 0) and "\x00" not in src and "\r" not in src:
        try:
            data = src.encode("utf-8")
        except UnicodeEncodeError:
            data = None
        if data is not None:
            import os
            import tempfile

            from ..common import XonshParser, classify_exception, Outcome, SoftTimeout, watchdog

            fd, path = tempfile.mkstemp(prefix="vf-c15-", suffix=".xsh", dir=os.environ.get("VERIF_WORKER_TMP"))
            try:
                with os.fdopen(fd, "wb") as f:
                    f.write(data)
                for v in VERSIONS:
                    for verbose in (False, True):
                        if verbose and (v not in (None, (3, 8)) or case.get("skip_verbose")):
                            continue
                        opts = {"verbose": verbose}
                        if v is not None:
                            opts["py_version"] = v
                        try:
                            with watchdog(), contextlib.redirect_stdout(Discard()):
                                fo = Outcome("tree", tree=XonshParser().parse_file(__import__("pathlib").Path(path), **opts))
                        except SoftTimeout:
                            continue
                        except BaseException as e:  # noqa: BLE001
                            fo = classify_exception(e)
                        rec.count("file-cells")
                        so = results[("exec", False, v)]
                        if fo.canon(filename=False) != so.canon(filename=False):
                            rec.fail(dict(case, mode="exec"), f"parse_file-ignores-option:{'verbose' if verbose else 'py_version'}:{so.kind}->{fo.kind}", {"py_version": v, "verbose": verbose, "string": [str(x)[:160] for x in so.brief()], "file": [str(x)[:160] for x in fo.brief()]})
                            return
            finally:
                os.unlink(path)
    for mode in modes:
        base = results[(mode, False, None)]
        bc = base.canon()
        need = need_of(base.tree) if base.kind == "tree" else None
        for v in VERSIONS:
            quiet = results[(mode, False, v)]
            loud = results.get((mode, True, v))
            if loud is not None and quiet.canon() != loud.canon():
                rec.fail(dict(case, mode=mode), f"verbose-changes-outcome:{quiet.kind}->{loud.kind}", {"mode": mode, "py_version": v, "quiet": [str(x)[:200] for x in quiet.brief()], "verbose": [str(x)[:200] for x in loud.brief()]})
                return
            if quiet.kind in ("raise", "hang"):
                rec.fail(dict(case, mode=mode), f"cell-raises:{quiet.etype}", {"mode": mode, "py_version": v, "outcome": [str(x)[:200] for x in quiet.canon()]})
                return
            if v is None:
                continue
            if base.kind == "tree":
                if need is None or v >= need:
                    if quiet.canon() != bc:
                        rec.fail(dict(case, mode=mode), f"py_version-changes-ungated-outcome:{quiet.kind}", {"mode": mode, "py_version": v, "need": need, "got": [str(x)[:200] for x in quiet.brief()]})
                        return
                else:
                    # the error names the version required by (one of) the gated construct(s) the program cannot use
                    ok = quiet.kind == "error" and any(f"({n[0]}, {n[1]})" in str(quiet.fields[1]) for n in needs_of(base.tree) if v < n)
                    if not ok:
                        rec.fail(dict(case, mode=mode), f"gated-syntax-not-rejected:{quiet.kind}", {"mode": mode, "py_version": v, "need": need, "got": [str(x)[:200] for x in quiet.brief()]})
                        return
            else:
                if quiet.kind not in ("error", "tokenerror"):
                    rec.fail(dict(case, mode=mode), f"rejected-input-accepted-under-py_version:{quiet.kind}", {"mode": mode, "py_version": v})
                    return
                if v < (3, 12) and quiet.kind == "error" and "supported in Python" not in str(quiet.fields[1]) and quiet.canon() != bc:
                    # an earlier target version may add ONE thing to a rejected input: the report that a construct needs a
                    # later Python; when that is not what is reported, the report is the one every other version gets
                    rec.fail(dict(case, mode=mode), "py_version-changes-ungated-error", {"mode": mode, "py_version": v, "default": [str(x)[:200] for x in bc], "got": [str(x)[:200] for x in quiet.canon()]})
                    return
                if v >= (3, 12) and quiet.canon() != bc:
                    rec.fail(dict(case, mode=mode), "py_version>=3.12-changes-error", {"mode": mode, "py_version": v, "default": [str(x)[:200] for x in bc], "got": [str(x)[:200] for x in quiet.canon()]})
                    return


def search(rec, ctx):
    seeds = xonsh.xonsh_seeds()
    crng = ctx.rng("corpus")
    corp = [s for _, s in corpus.sample_statements(crng, 20 if ctx.thorough else 3, per_file=30 if ctx.thorough else 15) if len(s) < 500]
    for s in ctx.shard(GATED):
        check(rec, {"src": s, "stream": "gated"})
    for s in ctx.shard(seeds):
        if len(s) < 300:
            check(rec, {"src": s, "stream": "xonsh-seed"})
    # rejected inputs that reach the specialised invalid_* diagnostics, literal evaluation, macros, tokenizer errors
    from .c11 import TARGETED

    for s in ctx.shard(TARGETED):
        check(rec, {"src": s + "\n", "stream": "targeted-error", "modes": ["exec"]})

    fams = sorted(CHAINS)
    deep = [(f, n) for f in fams for n in ((300, 1100) if not ctx.thorough else (150, 300, 700, 1100, 1500, 2500))]
    # (for the nested-* families n is scaled down to 4..50 levels / 20..230 blocks: the band in which the default recursion
    # limit gives out; whatever the quiet parse does there -- tree or RecursionError -- the traced one must do too)
    deep += [(f, n) for f in fams if f.startswith("nested-") for n in (600, 780, 900, 1000, 1200, 1500)]
    for f, n in ctx.shard(deep):
        check(rec, {"deep": True, "family": f, "n": n, "mode": "exec" if f in ("statements", "pipeline", "nested-blocks") else "eval"})

    def gen(rnd):
        r = rnd.random()
        if r < 0.3:
            g = PyGen(rnd, max_depth=3, nonascii=rnd.random() < 0.3)
            src = g.program(2)
            stream = "g1"
        elif r < 0.4:
            src = PyGen(rnd, max_depth=3).expr(0)
            stream = "g1-expr"
        elif r < 0.55 and corp:
            src = corp[rnd.randrange(len(corp))]
            stream = "corpus"
        elif r < 0.7:
            base = GATED[rnd.randrange(len(GATED))]
            extra = PyGen(rnd, max_depth=2).stmt(1, "")
            src = rnd.choice([base + extra, extra + base, base])
            stream = "gated-mixed"
        elif r < 0.85:
            base = corp[rnd.randrange(len(corp))] if corp and rnd.random() < 0.5 else seeds[rnd.randrange(len(seeds))]
            src, _ = mutate.mutate(rnd, base[:400], xonsh=True)
            stream = "mutation"
        elif r < 0.93:
            base = GATED[rnd.randrange(len(GATED))]
            src, _ = mutate.mutate(rnd, base)
            stream = "gated-mutated"
        else:
            from .c11 import TARGETED, wrap

            src, _ = wrap(rnd, TARGETED[rnd.randrange(len(TARGETED))])
            stream = "targeted-error-wrapped"
        if len(src) > 600:
            return
        check(rec, {"src": src, "stream": stream})

    drive(st.randoms(use_true_random=False), gen, ctx.budget(4800, 40000), ctx.hseed("gen"))
