"""C14 -- statements parse independently: parse(A+B) = parse(A) then line-shifted parse(B)."""

from __future__ import annotations

import ast
import copy

from hypothesis import strategies as st

from ..common import astdiff, diff_signature, outcome
from ..gen import corpus, xonsh
from ..gen.fstr import FGen
from ..gen.pysrc import PyGen
from ..hyp import drive

META = {
    "level": "exploration",
    "rule": (
        "inputs: lists of 2-6 parts; each part is a complete statement sequence that parses on its own and ends in a newline: G1 statements "
        "(blocks, decorators, multi-line strings/brackets), corpus statements, f-string statements (G7) and xonsh statements -- subprocess "
        "statements, $X assignments, call macros, with-macros (block and one-line form), subprocess macros, path literals (p, pf), help, "
        "backticks, && / || lines; any part may also appear as the body of an if/for/def/while/class/with/else block (the next part then starts at a "
        "DEDENT).  Parts may end with blank/comment lines but never start with one.  Oracle (metamorphic, no reference parser "
        "needed): parse(p1+...+pk).body equals, with positions, the concatenation of parse(pi).body shifted by the number of lines before pi "
        "(ast.increment_lineno), compared with astdiff; a list that parses although one of its parts -- a complete program for CPython -- is rejected on its own is a violation too.  non-trivial = some xonsh part is not last and is followed by a compound statement or "
        "another macro; distinct by text.  Histogram over ordered pairs of statement kinds."
    ),
    "assumptions": ["a blank/comment line right after a with-macro block belongs to the macro (the suite documents it), hence parts never start with one"],
}

XONSH_PARTS = [
    ("subproc", "$(ls -la)\n"), ("subproc", "x = $(git status | grep a)\n"), ("subproc", "![echo @(x) 'a b' 2>&1]\n"), ("subproc", "$[ls $HOME]\n"), ("subproc", "r = !(cmd --opt=val)\n"),
    ("env", "$X = 1\n"), ("env", "${'a' + b} = $Y\n"), ("env", "del_ = $PATH + ':' + $HOME\n"), ("env", "for $V in y:\n    pass\n"),
    ("call-macro", "f!(x, y + 1, [a, b])\n"), ("call-macro", "r = obj.m!(if x: y) + 1\n"), ("call-macro", "g!( 'a,b', (1, 2) ); z = 3\n"), ("call-macro", "h!(a\n)\n") if False else ("call-macro", "h!((a,\n b), c)\n"),
    ("with-macro", "with! ctx as c:\n    a b c\n    if x:\n        y\n"), ("with-macro", "with! m():\n\techo hi\n\tls -l\n"), ("with-macro-1", "with! ctx: echo hi; ls\n"), ("with-macro-1", "with! q as t: [1,\n    2]\n"),
    ("with-macro", "if c:\n    with! inner:\n        u v w\n    after = 1\n"), ("with-macro", "with! a:\n    # only\n    x y\n\n    z\n"),
    ("proc-macro", "$(bash -c! echo 'hi'; ls)\n"), ("proc-macro", "out = $(pwd!)\n"), ("proc-macro", "![echo !]\n"), ("proc-macro", "$[ls -l!]\n"), ("proc-macro", "![echo! a b   c]\n"), ("proc-macro", "x = !(git! commit -m 'm, n')\n"),
    ("path", "p'/a/b'\n"), ("path", "x = pf'/a/{b}' / pr'\\c'\n"), ("path", "y = (p\"a\" 'b')\n"), ("path", "z = f(p'q', pf\"{r}\")\n"),
    ("help", "x?\n"), ("help", "a.b??\n"), ("help", "v = b?.c?\n"),
    ("backtick", "y = `.*\\.py`\n"), ("backtick", "z = g`*.py` + @foo`bar`\n"),
    ("fstring", 's = f"""l1\nl2\nl3\n{a}!"""\n'), ("fstring", "print(f'{v=}', f'{w = !r:>4}')\n"), ("fstring", "t = f'''{\nq\n=}'''\n"), ("fstring", "u = pf'{h}/{v=}'\n"),
    ("fstring", 'if c:\n    y = f"{a \\\n}"\n'), ("fstring", "while t:\n    z = f\'\'\'{b + \\\n c:>4}\'\'\'\n"), ("fstring", 'def f():\n    return f"{a \\\n + b}"\n'), ("fstring", "for i in j:\n    print(f'{i\\\n!r}', f\"{k:{w}\\\n}\")\n"),
    ("env", "ﬁle = 1\n"), ("subproc", "$(cat ﬁle µ)\n"), ("subproc", "r = ![ls ｆｏｏ.txt ﬁle]\n"), ("env", "µ = ﬁle + 1\n"), ("call-macro", "f!(ﬁle, µ)\n"),
    ("boolop", "a && b || c\n"), ("boolop", "r = $(x) && ![y]\n"),
    ("bare-cmd", "ls -la\n") if False else ("subproc", "print($(pwd))\n"),
]
XONSH_PARTS = [p for p in XONSH_PARTS if p]
COMPOUND_KINDS = {"If", "For", "While", "With", "Try", "FunctionDef", "ClassDef", "Match", "AsyncFunctionDef", "AsyncFor", "AsyncWith", "TryStar"}


def body_of(src):
    o = outcome(src, "exec")
    return o


def cpython_accepts(src: str) -> bool:
    import warnings

    try:
        with warnings.catch_warnings():
            warnings.simplefilter("ignore")
            ast.parse(src)
        return True
    except (SyntaxError, ValueError, RecursionError, MemoryError):
        return False


def check(rec, case):
    parts = case["parts"]
    kinds = case.get("kinds", ["?"] * len(parts))
    bodies = []
    alone = {}
    for p in parts:
        if p not in alone:
            alone[p] = outcome(p, "exec")
        o = alone[p]
        if o.kind != "tree":
            # outside the property as stated -- unless the part is a complete program for CPython (so it is neither an
            # indented fragment that needs a block before it nor something left open that needs what follows) and the
            # list as a whole parses: then it was accepted in company and rejected alone, i.e. not parsed independently
            w = outcome("".join(parts), "exec") if cpython_accepts(p) else None
            if w is not None and w.kind == "tree" and o.kind in ("error", "tokenerror"):
                rec.case(case, True, labels=["part-rejected-alone"], key="".join(parts))
                cn = o.canon()
                rec.fail(dict(case, src="".join(parts)), f"whole-accepted-though-part-rejected-alone:{o.etype}", {"part": p[:200], "alone": [str(x)[:120] for x in cn], "kinds": kinds})
                return
            rec.exclude("part-does-not-parse-alone")
            return
        bodies.append(copy.deepcopy(o.tree.body) if parts.count(p) > 1 else o.tree.body)
    whole_src = "".join(parts)
    nt = False
    for i, k in enumerate(kinds[:-1]):
        if k not in ("python", "corpus", "fstring"):
            nxt = bodies[i + 1][0] if bodies[i + 1] else None
            if kinds[i + 1] in ("call-macro", "with-macro", "with-macro-1", "proc-macro") or (nxt is not None and type(nxt).__name__ in COMPOUND_KINDS):
                nt = True
    labels = [f"pair:{a}>{b}" for a, b in zip(kinds, kinds[1:])]
    rec.case(case, nt, labels=labels, key=whole_src)
    o = outcome(whole_src, "exec")
    if o.kind != "tree":
        cn = o.canon()
        rec.fail(dict(case, src=whole_src), f"whole-rejected:{cn[0]}:{o.etype}:{(cn[2] if len(cn) > 2 else '')[:30]}", {"outcome": [str(x)[:200] for x in cn], "kinds": kinds})
        return
    exp = []
    off = 0
    for p, b in zip(parts, bodies):
        for stmt in b:
            if off:
                ast.increment_lineno(stmt, off)
            exp.append(stmt)
        off += p.count("\n")
    got = o.tree.body
    if len(exp) != len(got):
        rec.fail(dict(case, src=whole_src), "statement-count", {"expected": len(exp), "got": len(got), "kinds": kinds})
        return
    for i, (e, g) in enumerate(zip(exp, got)):
        d = astdiff(e, g, positions=True)
        if d is not None:
            rec.fail(dict(case, src=whole_src), "body-differs:" + diff_signature(d), {"statement": i, "path": d[0], "expected": d[2], "got": d[3], "kinds": kinds})
            return


SHRINK_FIELDS = ()


def search(rec, ctx):
    crng = ctx.rng("corpus")
    corp = [s for _, s in corpus.sample_statements(crng, 30 if ctx.thorough else 4, per_file=40 if ctx.thorough else 25) if len(s) < 1200 and s.strip() and not s.lstrip().startswith("#")]

    def part(rnd):
        r = rnd.random()
        if r < 0.4:
            k, s = XONSH_PARTS[rnd.randrange(len(XONSH_PARTS))]
        elif r < 0.5:
            c = xonsh.with_macro_case(rnd)
            k, s = ("with-macro-1" if c["one_line"] else "with-macro"), c["src"] if c["src"].endswith("\n") else c["src"] + "\n"
        elif r < 0.55:
            c = xonsh.call_macro_case(rnd)
            k, s = "call-macro", c["ctx"].replace("{M}", c["macro"])
        elif r < 0.58:
            k, s = "proc-macro", "r = " + xonsh.proc_macro_case(rnd)["text"] + "\n"
        elif r < 0.6:
            g = FGen(rnd)
            k, s = "fstring", g.statement()
        elif r < 0.64:
            # f-strings whose pieces span lines (a field on a later line, text after it) and debug fields right after them:
            # what a piece leaves behind in the tokenizer's line bookkeeping shows in the '=' text of the next statements
            from ..gen import mltok

            if rnd.random() < 0.5:
                body = "\n".join(rnd.choice(["usage:", "  prog [options]", "{name}!", "see {also} too", "", "  {x:>4} |"]) for _ in range(rnd.randrange(2, 6)))
                k, s = "fstring", rnd.choice(["banner = ", "print(", "t = 1, "]) + 'f"""' + body + '"""' + rnd.choice(["\n", ")\n", "\n"])
                if s.startswith("print(") and not s.endswith(")\n"):
                    s = s[:-1] + ")\n"
                elif not s.startswith("print(") and s.endswith(")\n"):
                    s = s[:-2] + "\n"
            else:
                k, s = "fstring", mltok.debug_statement(rnd)[0] + "\n"
        elif r < 0.82 and corp:
            k, s = "corpus", corp[rnd.randrange(len(corp))]
        else:
            k, s = "python", PyGen(rnd).stmt(0, "")
        if rnd.random() < 0.15 and s.endswith("\n"):
            # the same statement as the body of a block: what follows it starts with a DEDENT
            head = rnd.choice(["if c:\n", "for i in j:\n", "def f():\n", "while t:\n", "class K:\n", "with m:\n", "if c:\n    pass\nelse:\n"])
            ind = rnd.choice(["    ", "  ", "\t"])
            s = head.replace("    ", ind) + "".join(ind + ln if ln.strip() else ln for ln in s.splitlines(keepends=True))
            k = k if k in ("python", "corpus", "fstring") else k  # (the kind keeps naming what is inside)
        if rnd.random() < 0.2:
            s += rnd.choice(["\n", "# trailing comment\n", "\n\n", "   \n"])
        return k, s

    # a statement whose logical line is closed on a later row than its last token (backslash-newline, then an empty or
    # comment-only row), followed by a statement that could continue an expression if that line end were lost
    FOLLOWERS = ["(y)\n", "[0]\n", "-2\n", "+x\n", "*a, b = c\n", "(a, b) = c\n", "[i for i in j]\n", "...\n", ".5\n", "not z\n", "@(p)\n", "$(ls)\n", "![q]\n", "(f!(a b))\n", "{k: v}\n", "'s' 't'\n", "if a:\n    b\n"]

    def gen(rnd):
        n = rnd.randint(2, 6)
        ps = [part(rnd) for _ in range(n)]
        if rnd.random() < 0.12:
            i = rnd.randrange(len(ps))
            k, s = ps[i]
            if rnd.random() < 0.5 or "\n" in s[:-1] or "#" in s or s.rstrip().endswith(":") or not s.endswith("\n"):
                k, s = "python", rnd.choice(["q = 1\n", "f(a)\n", "r = g.h\n", "t = u[0]\n", "v = w + 1\n", "del z\n", "return_ = a if b else c\n", "e = $(ls)\n", "m = 'x'\n"])
            s = s[:-1] + rnd.choice([" \\\n", "\\\n", "  \\\n"]) + rnd.choice(["\n", "\n", "# c\n", "   \n", "\n\n"])
            ps[i : i + 1] = [(k, s), ("python", rnd.choice(FOLLOWERS))]
        check(rec, {"parts": [p[1] for p in ps], "kinds": [p[0] for p in ps]})

    drive(st.randoms(use_true_random=False), gen, ctx.budget(12000, 150000), ctx.hseed("lists"))

    # a few very long lists (hundreds to a thousand parts drawn from a handful of short statements): whatever the parser
    # accumulates per statement -- bracket bookkeeping, memo entries, cached lines -- must not reach the later ones
    SHORT = [
        ("python", "x = 1\n"), ("python", "value = compute(alpha, beta)[index] + offset\n"), ("python", "r = f(g(h(a, b), c), d(e(1)))\n"), ("fstring", "print(f'{a:>4} {b:{w}} {c!r:^{n}}')\n"),
        ("fstring", "s = f'{x:.2f}|{y:>{w}}|'\n"), ("subproc", "$(echo a b)\n"), ("call-macro", "m!(p q, r)\n"), ("python", "if a:\n    b = [1, 2, (3, 4)]\n"), ("env", "$V = f'{k=}'\n"), ("python", "d = {'k': [v for v in w if v]}\n"),
    ]
    lrng = ctx.rng("long-lists")
    if ctx.k < (8 if ctx.thorough else 3):
        n = lrng.choice([250, 600, 1100]) if ctx.k else 1100
        kinds_ = [SHORT[lrng.randrange(len(SHORT))] if lrng.random() < 0.7 else SHORT[lrng.choice([0, 2, 3])] for _ in range(n)]
        check(rec, {"parts": [p for _, p in kinds_], "kinds": [k for k, _ in kinds_]})
    # ... and lists long enough (tens of thousands of tokens) that any bound on what the parser keeps -- memo table, token
    # window, line cache -- is crossed several times, at an offset that differs per worker and per seed; the statements
    # are dominated by nested calls, i.e. by left-recursive rules that are in the middle of growing at most offsets
    CALLS = [
        ("python", "total = scale * clamp(round(a * b + fee(k, z)), low)\n"), ("python", "out[i].append(conv(base(x, y).get(key(n)), z)(q))\n"), ("python", "r = f(g(h(a, b), c), d(e(1)))\n"),
        ("python", "v = 1\n"), ("python", "w = t.u(a)[b.c(d)](e).f\n"), ("subproc", "n = $(echo @(p(q(r))) s)\n"),
    ]
    if (8 if ctx.thorough else 3) <= ctx.k < (16 if ctx.thorough else 8):
        n = lrng.choice([1500, 1900, 2300, 2700])
        pad = lrng.randrange(0, 12)
        kinds_ = [CALLS[3]] * pad + [CALLS[lrng.randrange(len(CALLS))] for _ in range(n)]
        check(rec, {"parts": [p for _, p in kinds_], "kinds": [k for k, _ in kinds_]})


def candidates(case):
    """fewer parts, then fewer lines inside a part (each candidate part must still parse alone: check() excludes otherwise)"""
    parts, kinds = case["parts"], case.get("kinds", ["?"] * len(case["parts"]))
    if len(parts) > 2:
        for i in range(len(parts)):
            yield dict(case, parts=parts[:i] + parts[i + 1 :], kinds=kinds[:i] + kinds[i + 1 :])
    for i, p in enumerate(parts):
        lines = p.split("\n")
        if len(lines) > 2:
            for j in range(len(lines) - 1):
                q = "\n".join(lines[:j] + lines[j + 1 :])
                if q.strip():
                    yield dict(case, parts=parts[:i] + [q] + parts[i + 1 :])
