"""C09 -- the tokenizer agrees with CPython's tokenize on Python sources."""

from __future__ import annotations

import ast
import io
import token as pytoken
import tokenize as pytok

from hypothesis import strategies as st

import re

from .. import known
from ..common import tokens_outcome
from ..gen import corpus, layout, lex
from ..gen.fstr import FGen
from ..gen.pysrc import PyGen
from ..hyp import drive

META = {
    "level": "exploration",
    "rule": (
        "inputs: texts CPython's tokenize accepts and that contain no '@(' and no xonsh-only character (an f-string counts as ONE token from "
        "its prefix to its closing quote on both sides; its inside is C10's): G1 programs, G7 f-string statements inside block layouts, "
        "G2 layout variants, G3 corpus statements, G6 fragments -- number spellings (valid and near-valid) in several embeddings, "
        "string prefix x quote x body, name/number/keyword adjacency, random indentation structures (spaces, tabs, form feeds, "
        "comment/blank lines), continuation placement, and ALL pairs (quick) / triples (thorough) of CPython operator tokens glued "
        "together that occur in at least one embedding accepted by ast.parse.  Oracle: drop WS/COMMENT/NL (ours) and COMMENT/NL "
        "(CPython's); same length; NAME/NUMBER/STRING/OP agree on (kind,string,start,end); NEWLINE/INDENT/DEDENT/ENDMARKER agree on "
        "kind at the same index.  non-trivial = >=5 significant tokens or a G6 fragment class; distinct by text."
    ),
    "assumptions": [
        "reference = tokenize.generate_tokens of the CPython 3.12 running the check",
        "operator runs are only in the domain when some embedding of the run is valid Python (the property speaks about valid Python)",
    ],
}

@known.matcher
def legacy_leading_zero_number(case, signature, detail):
    """D24: CPython's tokenize swallows a decimal with leading zeros ('0377', '0_7', '01') as one NUMBER"""
    if not signature.startswith("string:NUMBER"):
        return False
    cp = detail.get("cpython")
    if cp and cp[0] == "NUMBER":
        try:  # '09.5', '09j', '00' are valid literals and must tokenize like CPython: not part of D24
            ast.literal_eval(cp[1])
            return False
        except (SyntaxError, ValueError):
            pass
    return bool(cp) and cp[0] == "NUMBER" and re.fullmatch(r"0[0-9_]*[0-9][0-9_]*[jJ]?|0[0-9_]+\.?[0-9_]*(?:[eE][-+]?[0-9_]+)?[jJ]?", cp[1]) is not None and not re.fullmatch(r"0(?:_?0)*", cp[1])


@known.matcher
def xid_outside_regex_w(case, signature, detail):
    """D23: an identifier contains a character that is XID_Start/XID_Continue but not matched by \\w"""
    cp = detail.get("cpython") if isinstance(detail, dict) else None
    if cp:
        if cp[0] != "NAME" or not (signature.endswith("NAME->NAME") or signature.startswith(("string:NAME", "kind:NAME"))):
            return False
        return re.fullmatch(r"\w+", cp[1]) is None and cp[1].isidentifier()
    # other properties (C01): the source, as CPython tokenizes it, contains such an identifier
    try:
        for t in pytok.generate_tokens(io.StringIO(case["src"]).readline):
            if t.type == pytok.NAME and re.fullmatch(r"\w+", t.string) is None:
                return True
    except Exception:
        return False
    return False


STRUCT = {"NEWLINE", "INDENT", "DEDENT", "ENDMARKER"}
FSTRING_TYPES = {getattr(pytok, n) for n in ("FSTRING_START", "FSTRING_MIDDLE", "FSTRING_END") if hasattr(pytok, n)}


def theirs(src: str):
    """CPython's significant tokens, or 'fstring' / 'inconsistent' (the reference contradicts itself:
    CPython 3.12 mis-reports the end column of multi-line tokens after non-ASCII text)"""
    out = []
    lines = src.split("\n")
    offs = [0]
    for ln in lines:
        offs.append(offs[-1] + len(ln) + 1)
    depth, fstart = 0, None
    for t in pytok.generate_tokens(io.StringIO(src).readline):
        n = pytoken.tok_name[t.type]
        if n == "FSTRING_START":
            depth += 1
            if depth == 1:
                fstart = tuple(t.start)
            continue
        if n == "FSTRING_END":
            depth -= 1
            if depth == 0:
                # what is inside an f-string is C10's business; here it counts as one token from its prefix to its closing quote
                (l1, c1), (l2, c2) = fstart, t.end
                text = src[offs[l1 - 1] + c1 : offs[l2 - 1] + c2] if l1 - 1 < len(lines) and l2 - 1 < len(lines) else ""
                if not re.match(r"(?i)[a-z]{1,2}(\'|\")", text) or text[-1:] != t.string[-1:] or not t.string:
                    return "inconsistent"
                out.append(("FSTRING", None, fstart, tuple(t.end)))
            continue
        if depth:
            continue
        if n in ("COMMENT", "NL"):
            continue
        if n == "NAME" and not t.string.isidentifier():
            return "inconsistent"  # the reference tokenizer is lenient: any non-ASCII character passes as NAME ('€')
        if n in ("NAME", "NUMBER", "STRING", "OP"):
            (l1, c1), (l2, c2) = t.start, t.end
            if l1 - 1 >= len(lines) or l2 - 1 >= len(lines) or c1 > len(lines[l1 - 1]) or c2 > len(lines[l2 - 1]) or src[offs[l1 - 1] + c1 : offs[l2 - 1] + c2] != t.string:
                return "inconsistent"  # (a column past the end of its line: slicing alone would forgive it)
        out.append((n, t.string, tuple(t.start), tuple(t.end)))
    return out


def ours(toks):
    out = []
    depth, fstart = 0, None
    for t in toks:
        n = t.type.name
        if n == "FSTRING_START":
            depth += 1
            if depth == 1:
                fstart = tuple(t.start)
            continue
        if n == "FSTRING_END":
            depth -= 1
            if depth == 0:
                out.append(("FSTRING", None, fstart, tuple(t.end)))
            continue
        if depth:
            continue
        if n in ("WS", "COMMENT", "NL"):
            continue
        out.append((n, t.string, tuple(t.start), tuple(t.end)))
    return out


def compare(a, b):
    """a = ours, b = CPython's; first disagreement as (signature, detail)"""
    for i, (x, y) in enumerate(zip(a, b)):
        if y[0] in STRUCT or x[0] in STRUCT:
            if x[0] != y[0]:
                return (f"kind:{y[0]}->{x[0]}", {"index": i, "ours": x, "cpython": y})
            continue
        if x != y:
            what = "kind" if x[0] != y[0] else ("string" if x[1] != y[1] else "position")
            return (f"{what}:{y[0]}->{x[0]}", {"index": i, "ours": x, "cpython": y})
    if len(a) != len(b):
        return ("length", {"ours": len(a), "cpython": len(b), "ours_tail": a[-3:], "cpython_tail": b[-3:]})
    return None


def check(rec, case):
    src = case["src"]
    stream = case.get("stream", "?")
    if "@(" in src:
        rec.exclude("at-paren-digraph")
        return
    if any(ch in src for ch in "$?`") or "\x00" in src:
        rec.exclude("xonsh-only-character")
        return
    try:
        b = theirs(src)
    except (pytok.TokenError, SyntaxError, IndentationError, ValueError, RecursionError, SystemError):
        rec.case(case, False, labels=(f"stream:{stream}", "cpython-tokenize-rejects"))
        return
    if b == "inconsistent":
        rec.exclude("cpython-token-contradicts-its-own-text-or-lexical-rules")
        return
    if case.get("need_valid"):
        ok = False
        for tmpl in lex.EMBED:
            try:
                ast.parse(tmpl.replace("{r}", case["run"]))
                ok = True
                break
            except (SyntaxError, ValueError):
                continue
        if not ok:
            rec.exclude("operator-run-in-no-valid-embedding")
            return
    kind, val = tokens_outcome(src)
    nt = len(b) >= 6 or stream.startswith("g6")
    has_f = any(x[0] == "FSTRING" for x in b)
    rec.case(case, nt, labels=(f"stream:{stream}",) + (("f-string-as-one-token",) if has_f else ()), key=src)
    if kind != "tokens":
        rec.fail(case, f"ours-rejects:{val.canon()[0]}:{val.etype}", {"outcome": [str(x)[:200] for x in val.canon()]})
        return
    d = compare(ours(val), b)
    if d is not None:
        rec.fail(case, d[0], d[1])


def number_cases():
    for n in lex.NUMBERS_VALID + lex.NUMBERS_NEAR + lex.DIGITS:
        for tmpl in ("{n}\n", "x = {n}\n", "x = {n} + 1\n", "f({n},{n})\n", "a[{n}:{n}]\n", "x = -{n}\n", "{n}.real\n", "{n} .real\n", "({n})\n", "x={n}if y else{n}\n", "[{n}for x in y]\n", "{n}j\n", "{n}_\n", "x = {n}e\n", "0{n}\n", "{n}.{n}\n", "{n}or x\n", "{n}in y\n"):
            yield tmpl.replace("{n}", n)


def search(rec, ctx):
    # ---- exhaustive / systematic G6 classes (sharded) ---------------------------------------
    for s in ctx.shard(number_cases()):
        check(rec, {"src": s, "stream": "g6-number"})
    for s in ctx.shard(lex.strings_product()):
        for tmpl in ("x = {s}\n", "{s}\n", "f({s}, {s})\n", "x = {s} {s}\n", "x={s}if y else z\n"):
            check(rec, {"src": tmpl.replace("{s}", s), "stream": "g6-string"})
    for name in ctx.shard(lex.ID_ODD + lex.ID_OK):
        if not name.isidentifier():
            continue
        for tmpl in ("{n} = 1\n", "x = {n} + {n}\n", "f({n}.{n})\n", "def {n}({n}): pass\n", "import {n}\n"):
            check(rec, {"src": tmpl.replace("{n}", name), "stream": "g6-identifier"})
    runs = list(lex.operator_runs(2))
    for r in ctx.shard(runs):
        for tmpl in ("a{r}b\n", "a {r} b\n", "a{r}\n", "{r}b\n", "f(a{r}b)\n", "a{r}1\n", "a{r}'s'\n"):
            check(rec, {"src": tmpl.replace("{r}", r), "stream": "g6-oprun2", "need_valid": True, "run": r})
    rec.notes["operator_pairs_enumerated"] = len(runs)
    if ctx.thorough:
        n3 = 0
        for r in ctx.shard(lex.operator_runs(3)):
            n3 += 1
            for tmpl in ("a{r}b\n", "f(a{r}b)\n", "a{r}1\n"):
                check(rec, {"src": tmpl.replace("{r}", r), "stream": "g6-oprun3", "need_valid": True, "run": r})
        rec.notes["operator_triples_enumerated_by_worker0"] = n3
    else:
        rng = ctx.rng("oprun3")
        for _ in range(ctx.budget(12000, 0)):
            r = "".join(rng.choice(lex.PY_OPS) for _ in range(3))
            check(rec, {"src": f"a{r}b\n", "stream": "g6-oprun3", "need_valid": True, "run": r})

    def deep(levels, unit, body="pass"):
        return "".join(unit * i + "if a:\n" for i in range(levels)) + unit * levels + body + "\n"

    for levels in ctx.shard([50, 90, 97, 98, 99, 100, 101, 120]):
        for unit in (" ", "\t", "  "):
            check(rec, {"src": deep(levels, unit), "stream": "g6-indentation-depth"})
            check(rec, {"src": deep(levels, unit) + "x = 1\n", "stream": "g6-indentation-depth"})

    # ---- generated -------------------------------------------------------------------------
    def indent(rnd):
        check(rec, {"src": lex.indentation_program(rnd), "stream": "g6-indentation"})

    drive(st.randoms(use_true_random=False), indent, ctx.budget(6000, 200000), ctx.hseed("indent"))

    def g1(rnd):
        g = PyGen(rnd, nonascii=rnd.random() < 0.25)
        src = g.program(4)
        check(rec, {"src": src, "stream": "g1"})
        if rnd.random() < 0.5:
            v = layout.variant(rnd, src)
            if v is not None:
                check(rec, {"src": v[0], "stream": "g2-layout"})

    drive(st.randoms(use_true_random=False), g1, ctx.budget(6000, 150000), ctx.hseed("g1"))

    def fstr(rnd):
        # f-strings as opaque tokens: what follows them (NEWLINE / INDENT / DEDENT placement, the next tokens) must not be disturbed
        g = FGen(rnd, nonascii=rnd.random() < 0.15)
        body = g.statement()
        lay = rnd.choice(["{S}", "{S}y = 1\n", "if c:\n    {S}y = 1\n", "if c:\n    {S}\ny = 1\n", "def f():\n    if a:\n        {S}    z = 2\nw = 3\n", "{S}\n\n# c\nk = 0\n", "while t:\n\t{S}\n", "if c:\n  {S}  {S2}else:\n  pass\n"])
        src = lay.replace("{S}", body).replace("{S2}", g.statement() if "{S2}" in lay else "")
        check(rec, {"src": src, "stream": "g7-fstring-in-layout"})

    drive(st.randoms(use_true_random=False), fstr, ctx.budget(5000, 120000), ctx.hseed("fstr"))
    from .c10 import EDGE_FORMS

    for lit in ctx.shard(EDGE_FORMS):
        for tmpl in ("x = {S}\n", "if c:\n    y = {S}\nz = 1\n", "f({S},\n  {S})\n"):
            check(rec, {"src": tmpl.replace("{S}", lit), "stream": "g7-fstring-edge-forms"})

    crng = ctx.rng("corpus")
    if ctx.thorough:
        for p in ctx.shard(corpus.test_data_files() + corpus.stdlib_files()):
            text = corpus.read_text(p)
            if text is not None:
                check(rec, {"src": text, "stream": "corpus-file"})
    else:
        for p, s in corpus.sample_statements(crng, 5, per_file=40):
            check(rec, {"src": s, "stream": "corpus"})
            if crng.random() < 0.5:
                v = layout.variant(crng, s)
                if v is not None:
                    check(rec, {"src": v[0], "stream": "g2-layout"})
