"""C02 -- no over-acceptance: text in the Python lexicon that CPython rejects is rejected."""

from __future__ import annotations

import itertools
import re

from hypothesis import strategies as st

from ..common import cpy, outcome
from ..gen import corpus, mutate
from ..gen.pysrc import PyGen
from ..hyp import drive

META = {
    "level": "exploration",
    "rule": (
        "inputs: (a) EXHAUSTIVE: every sequence of <=3 tokens (quick; + a seeded 5% sample of length 4) / <=4 tokens (thorough, 2.6e6) over a "
        "40-token Python vocabulary, space-joined, with and without final newline; (b) Hypothesis-drawn sequences of 5-12 vocabulary tokens "
        "with NEWLINE/INDENT/DEDENT structure; (c) single-token mutations, line mutations and every token-aligned proper prefix of G1 programs "
        "and corpus statements; (d) a tab/space-ambiguous indentation stream (finding D21).  Everything is filtered to the Python lexicon "
        "(no $ ? ! backtick, &&, ||, '@(', '>&', p-strings, f-strings; drops are counted).  Oracle: if ast.parse raises SyntaxError, "
        "parse_string must not return a tree.  non-trivial = CPython rejects the text AND some single-token deletion of it is accepted "
        "(the text sits next to the language boundary); distinct by text."
    ),
    "assumptions": ["reference = ast.parse of the CPython 3.12 running the check", "outcomes other than tree/SyntaxError/TokenError are C03's and only counted here"],
}

VOCAB = [
    "x", "1", "'s'", "if", "else", "for", "in", "def", "class", "return", "lambda", "not", "and", "import", "from", "as", "with", "pass", "del", "yield",
    "await", "async", "match", "case", "(", ")", "[", "]", "{", "}", ",", ":", ";", ".", "=", "==", "+", "-", "*", "**",
]
assert len(VOCAB) == 40
VOCAB_B = VOCAB + ["\n", "\n    ", "\n        ", "\n", "or", "is", "try", "except", "finally", "while", "elif", "raise", "assert", "global", "nonlocal", "None", "->", ":=", "@", "...", "|", "<", "//", "+=", "type", "_", "*=", "~", "y", "0", '"t"', "b'b'", "True", "break", "continue"]

# '!' is a Python lexeme only in '!=' and as an f-string conversion marker: '!' + optional blanks + a word (valid or not) + ':' or '}'
# (no xonsh construct starts that way: those are '!(' '![' 'f!(' and 'cmd! ...' inside a subprocess bracket)
NOT_PY = re.compile(r"[$?`]|!(?!=|\s*\w*\s*[:}])|&&|\|\||@\(|>&|(?i:(?<!\w)[rbuf]{0,2}p[rbuf]{0,2}['\"])")


SMALL_VALID = [
    "x = 1\n", "*a, b = c\n", "a, *b = c\n", "[*a] = c\n", "for *a, b in c: pass\n", "x = [*a, b]\n", "f(*a, **k)\n", "def f(*a, b, **k): pass\n", "lambda *a, b=1: 0\n", "x = {**a, 'b': 1}\n",
    "with a as (*b,): pass\n", "x = a if b else c\n", "x = [a for b in c if d]\n", "x = {a: b for c in d}\n", "del a, b[0], c.d\n", "a = b = c\n", "a += 1\n", "a: int = 1\n", "a.b[c](d)\n",
    "import a.b as c\n", "from . import a\n", "from a import (b, c)\n", "try:\n    a\nexcept B as c:\n    d\n", "try:\n    a\nexcept* B:\n    d\n", "while a:\n    break\nelse:\n    pass\n",
    "if a:\n    b\nelif c:\n    d\nelse:\n    e\n", "class A(B, c=d): pass\n", "@a.b(c)\ndef f(): pass\n", "async def f():\n    await a\n", "def f():\n    yield from a\n", "match a:\n    case [b, *c]: pass\n",
    "match a:\n    case {'k': v, **r}: pass\n", "match a:\n    case B(c, d=e) | f: pass\n", "type X[T] = list[T]\n", "def f[T: int, *Ts, **P](): pass\n", "x = a[1:2, ::3]\n", "x = (yield)\n", "x = (a := 1)\n",
    "assert a, b\n", "raise a from b\n", "global a, b\n", "return a\n", "x = not a in b\n", "x = a < b <= c\n", "x = -a ** -b\n", "x = a @ b\n", "x = 'a' 'b'\n", "x = f'{a!r:>{w}}'\n", "x = f'{a}' 'b'\n", "x = b'a' b'b'\n",
    "x = lambda: (yield)\n", "print(a, end='')\n", "a = b, = c\n", "for a in b, c: pass\n", "x = [a, b][0]\n", "with (a as b, c as d): pass\n", "x = a.b.c\n", "x = ...\n", "x = 1_0.0e-1j\n",
    "async with a, b: pass\n", "async with a as b: pass\n", "async for a in b: pass\n", "with a, b: pass\n", "match a:\n    case {**r}: pass\n", "match a:\n    case [_, *_]: pass\n", "match a:\n    case (b as c) | d: pass\n",
    "match a:\n    case -1 | 1.5+2j: pass\n", "match a:\n    case B.c(d=_): pass\n", "try:\n    a\nfinally:\n    b\n", "class A: x: int\n", "def f(a, /, b, *, c): pass\n", "lambda a, /, b=1, *c, d, **e: 0\n", "nonlocal a\n",
    "from .. import a as b\n", "import a, b.c\n", "x = a[b, *c]\n", "x = {*a, b}\n", "x = (*a, b)\n", "x = [a async for a in b]\n", "@a\nclass B: pass\n", "for a, in b: pass\n", "x = a if b else c if d else e\n", "del (a, b), [c]\n",
]
# every keyword, operator and delimiter of the mutation vocabulary (no whitespace / quote fragments) plus a few atoms
NEIGHBOUR_VOCAB = sorted({t for t in mutate.PY_VOCAB if t.strip() and "\n" not in t and not set(t) <= set("'\"f{")} | {"_", "b'b'", "f''", "None", "True", "|", "<", "->", "...", "type", "match", "case", "async", "await"})


FSTRING_FIELD_FORMS = ["f'{x! r}'", "f'{x ! r}'", "f'{x!\\tr}'", "f'''{x!\\nr}'''", "f'{x!r !s}'", "f'{x!}'", "f'{x! }'", "f'{x:{y:{z:{w}}}}'", "f'{x:{y:{z:{w:{v}}}}}'", "f'{a:{b}{c:{d:{e}}}}'", "f'{x:{y:{z:>{w}}}}'", "f'{f'{a:{b:{c:{d}}}}'}'", "f'{x:'}'", 'f"{x:"}"', "f'''{x:'''}'''", "f'{x=!}'", "f'{x=:{y:{z:{w}}}}'"]
# an f-string nested in a field of another one, whose own spec holds its own quote (the inner literal ends there)
FSTRING_FIELD_FORMS += [
    "f\"{f'{a:'}'}\"", "f'{f\"{a:\"}\"}'", 'f"""{f"{a:"}"}"""', "f\"{x:{f'{a:'}'}}\"", "f\"{f'{a:{b:'}}'}\"", "f'''{f'{a:'}'}'''", "f\"{f'{a!r:'}'} {b}\"", "f\"{f'{a:>3'}'}\"",
]
# conversion names: every word of 1..3 letters over the valid letters (and some others): only 's', 'r', 'a' are conversions
FSTRING_FIELD_FORMS += [t.replace("C", a + b + c) for a in ("s", "r", "a", "x", "S") for b in ("", "s", "r", "a") for c in ("", "a", "r") for t in ("f'{x!C}'", "f'{x!C:>4}'", "f'{x=!C}'", 'rf"""{x!C}"""')]


STRING_CONTINUATIONS = ["x = f'abc\\\\\\\\\ndef'\n", "x = 'abc\\\\\\\\\ndef'\n", "s = 'abc\\\ndef\nghi'\n", "s = f'abc\\\ndef\nghi'\n", "x = b'a\\\\\\\\\nb'\n", "x = r'a\\\\\\\\\nb'\n", "x = 'a\\\n", "x = f'a{b}\\\\\\\\\nc'\n", "x = 'a\\\\\\\\\\\\\\\\\nb'\n", 'y = "a\\\nb\nc"\n', "z = rf'a\\\nb\nc{d}'\n", "x = 'a\\\r\nb\r\nc'\r\n"]


def in_python_lexicon(src: str) -> bool:
    return NOT_PY.search(src) is None and "\x00" not in src and "﻿" not in src


def deletions_accept(toks: list[str], joiner: str, tail: str) -> bool:
    for i in range(len(toks)):
        t = toks[:i] + toks[i + 1 :]
        if t and cpy(joiner.join(t) + tail).kind == "tree":
            return True
    return False


def check(rec, case):
    src = case["src"]
    stream = case.get("stream", "?")
    if not in_python_lexicon(src):
        rec.exclude("not-in-python-lexicon")
        return
    c = cpy(src, "exec")
    if c.kind != "error":
        rec.case(case, False, labels=(f"stream:{stream}", f"cpython:{c.kind}"))
        return
    nt = case.get("near")
    if nt is None:
        toks = case.get("toks") or mutate.lex(src)
        if len(toks) <= 60:
            nt = any(cpy("".join(toks[:i] + toks[i + 1 :])).kind == "tree" for i in range(len(toks)) if toks[i].strip()) if "toks" not in case else deletions_accept(toks, " ", case.get("tail", ""))
        else:
            nt = stream in ("mutation", "prefix")
    rec.case(case, bool(nt), labels=(f"stream:{stream}", "cpython:rejects", f"cpython-msg:{c.exc.msg.split('(')[0][:40]}"), key=src)
    o = outcome(src, "exec")
    if o.kind == "tree":
        rec.fail(case, f"over-accepted:{c.exc.msg.split('(')[0].strip()[:50]}", {"cpython": [c.exc.msg, c.exc.lineno, c.exc.offset]})
    elif o.kind in ("raise", "hang"):
        rec.inconclusive[f"forwarded-to-C03:{o.canon()}"[:100]] += 1


def search(rec, ctx):
    # ---- (a) exhaustive ---------------------------------------------------------------------
    n_exh = 0
    for k in (1, 2, 3):
        for idx, t in enumerate(itertools.product(VOCAB, repeat=k)):
            if idx % ctx.n != ctx.k:
                continue
            n_exh += 1
            toks = list(t)
            check(rec, {"src": " ".join(toks) + "\n", "stream": f"exhaustive-{k}", "toks": toks, "tail": "\n"})
            if idx % 7 == 0:
                check(rec, {"src": " ".join(toks), "stream": f"exhaustive-{k}-nonl", "toks": toks, "tail": ""})
    rng = ctx.rng("len4")
    if ctx.thorough:
        for idx, t in enumerate(itertools.product(VOCAB, repeat=4)):
            if idx % ctx.n != ctx.k:
                continue
            n_exh += 1
            toks = list(t)
            check(rec, {"src": " ".join(toks) + "\n", "stream": "exhaustive-4", "toks": toks, "tail": "\n"})
        rec.notes["exhaustive_part"] = "all sequences of <=4 tokens over the 40-token vocabulary"
    else:
        for _ in range(ctx.budget(128000, 0)):
            toks = [VOCAB[rng.randrange(40)] for _ in range(4)]
            check(rec, {"src": " ".join(toks) + "\n", "stream": "sample-4", "toks": toks, "tail": "\n"})
        rec.notes["exhaustive_part"] = "all sequences of <=3 tokens over the 40-token vocabulary; length 4 sampled"

    # ---- (a') every ordered pair / triple of adjacent string-literal kinds (str, bytes, f-strings, raw, u, triple-quoted) ---
    from ..gen import lex

    for s in ctx.shard(list(lex.string_concat_matrix())):
        check(rec, {"src": "x = " + s + "\n", "stream": "string-concat-matrix"})

    # ---- (b) structured random sequences ------------------------------------------------------
    def seq(rnd):
        n = rnd.randint(5, 12)
        toks = [VOCAB_B[rnd.randrange(len(VOCAB_B))] for _ in range(n)]
        src = " ".join(toks).replace(" \n", "\n").replace("\n ", "\n") + "\n"
        # re-indent: lines after ':' get deeper, otherwise keep or dedent (spaces only)
        lines, out, depth = src.split("\n"), [], 0
        for ln in lines:
            s = ln.strip()
            out.append("    " * depth + s)
            if s.endswith(":"):
                depth += 1
            elif depth and rnd.random() < 0.4:
                depth -= 1
        check(rec, {"src": "\n".join(out), "stream": "random-sequence"})

    drive(st.randoms(use_true_random=False), seq, ctx.budget(15000, 300000), ctx.hseed("seq"))

    # ---- (c) mutations and prefixes of valid programs ------------------------------------------
    crng = ctx.rng("corpus")
    corp = [s for _, s in corpus.sample_statements(crng, 30 if ctx.thorough else 4, per_file=40 if ctx.thorough else 25) if len(s) < 1200]

    def mut(rnd):
        if corp and rnd.random() < 0.5:
            base = corp[rnd.randrange(len(corp))]
        else:
            base = PyGen(rnd).program(3)
        if cpy(base).kind != "tree":
            rec.exclude("seed-not-valid")
            return
        src, op = mutate.mutate(rnd, base, vocab=mutate.PY_VOCAB)
        check(rec, {"src": src, "stream": "mutation", "near": True})

    drive(st.randoms(use_true_random=False), mut, ctx.budget(12000, 300000), ctx.hseed("mut"))

    def prefixes(rnd):
        base = corp[rnd.randrange(len(corp))] if corp and rnd.random() < 0.5 else PyGen(rnd).program(2)
        if cpy(base).kind != "tree":
            return
        for pre in mutate.token_prefixes(base):
            check(rec, {"src": pre, "stream": "prefix", "near": True})

    drive(st.randoms(use_true_random=False), prefixes, ctx.budget(400, 8000), ctx.hseed("prefix"))

    # ---- (c2) the complete single-token-edit neighbourhood of small valid statements ---------------
    def neighbourhood(rnd, base=None):
        if base is None:
            base = PyGen(rnd, max_depth=2).stmt(0, "")
        if cpy(base).kind != "tree":
            return
        toks = [t for t in mutate.lex(base)]
        sig = [i for i, t in enumerate(toks) if t.strip()]
        if not sig or len(sig) > 14:
            return
        for i in sig:
            variants = [toks[:i] + toks[i + 1 :], toks[:i] + [toks[i], " ", toks[i]] + toks[i + 1 :]]
            for v in NEIGHBOUR_VOCAB:
                variants.append(toks[:i] + [v] + toks[i + 1 :])
                variants.append(toks[:i] + [v, " "] + toks[i:])
            for v in variants:
                check(rec, {"src": "".join(v), "stream": "single-edit-neighbourhood", "near": True})
        for a, b in zip(sig, sig[1:]):
            v = list(toks)
            v[a], v[b] = v[b], v[a]
            check(rec, {"src": "".join(v), "stream": "single-edit-neighbourhood", "near": True})

    for base in ctx.shard(SMALL_VALID):  # exhaustive: every statement of the list, every position, every vocabulary token
        neighbourhood(None, base)
    rec.notes["exhaustive_neighbourhood"] = f"all single-token edits of {len(SMALL_VALID)} small valid statements over {len(NEIGHBOUR_VOCAB)} vocabulary tokens"
    drive(st.randoms(use_true_random=False), neighbourhood, ctx.budget(160, 4000), ctx.hseed("neighbourhood"))

    # ---- (c3) f-string statements and their mutations (f-strings are Python lexemes too) -----------
    def fmut(rnd):
        from ..gen.fstr import FGen

        base = FGen(rnd).statement()
        if rnd.random() < 0.3:
            base = base.rstrip("\n") + rnd.choice([" b'x'\n", " rb''\n", " 'p'\n", " B\"q\" 'r'\n"])
        src, _ = (base, "none") if rnd.random() < 0.3 else mutate.mutate(rnd, base, vocab=mutate.PY_VOCAB + ["{", "}", "!r", ":", "=", "{{", "}}", "b'b'", "rb''"])
        check(rec, {"src": src, "stream": "fstring-mutation", "near": True})

    drive(st.randoms(use_true_random=False), fmut, ctx.budget(8000, 150000), ctx.hseed("fmut"))

    # bytes literals with non-ASCII characters (with and without escapes, every prefix spelling)
    for lit in ctx.shard([p + q + body + q for p in ("b", "B", "rb", "Rb", "bR", "BR") for q in ("'", '"', "'''") for body in ("café", "é", "naïve\\n", "日本", "a\\x41é")]):
        for tmpl in ("x = {S}\n", "f({S}, 1)\n", "d = {{{S}: 1}}\n", "x = b'a' {S}\n", "match v:\n    case {S}: pass\n"):
            check(rec, {"src": tmpl.replace("{{", "\x00").replace("}}", "\x01").replace("{S}", lit).replace("\x00", "{").replace("\x01", "}"), "stream": "non-ascii-bytes", "near": True})

    # pattern forms: atoms (among them the starred and double-starred ones, values that are no patterns, calls) in every
    # wrapper a pattern can sit in -- which combinations are patterns is CPython's call
    PATOMS = ["*r", "a", "1", "_", "'s'", "A()", "a.b", "-1", "1+2j", "{}", "[]", "()", "**r", "None", "f'x'", "a.b()", "-a", "1+2", "1j+1", "*_", "x=1", "a.b.c", "b's'", "1-2j", "-1j", "A(1, k=2)", "a as b", "1 as 2"]
    PWRAPS = ["{P}", "({P})", "[{P}]", "({P},)", "[a, ({P})]", "A(({P}))", "({P}) | b", "({P}) as y", "{P} as y", "{P} | {P}", "{{'k': {P}}}", "A({P})", "A(k={P})", "{P}, {P}", "{P} if c", "[{P}, {P}]", "{{{P}: 1}}", "({P}, *s)", "A({P}, {P})", "{{'k': 1, {P}}}"]
    for pa in ctx.shard(PATOMS):
        for w in PWRAPS:
            pat = w.replace("{{", "\x00").replace("}}", "\x01").replace("{P}", pa).replace("\x00", "{").replace("\x01", "}")
            check(rec, {"src": f"match v:\n    case {pat}:\n        pass\n", "stream": "match-pattern-forms", "near": True})

    # every sequence of up to four clauses after 'try:' (which of them form a try statement is CPython's call)
    CLAUSES = ["except:", "except E:", "except E as e:", "except* E:", "else:", "finally:"]
    seqs = [()] + [s for n in (1, 2, 3, 4) for s in itertools.product(CLAUSES, repeat=n)]
    for seq in ctx.shard(seqs):
        check(rec, {"src": "try:\n    a\n" + "".join(c + "\n    b\n" for c in seq), "stream": "try-clause-sequences", "near": True})

    # a single-quoted literal goes on only after an unescaped backslash, and only for that one line
    for src in ctx.shard(STRING_CONTINUATIONS):
        for tmpl in ("{S}", "if a:\n    {S}", "f(1)\n{S}y = 2\n"):
            check(rec, {"src": tmpl.replace("{S}", src if tmpl == "{S}" else src.replace("\n", "\n" + ("    " if tmpl.startswith("if") else ""), 0)), "stream": "string-continuation", "near": True})

    # field forms at the edge of what CPython takes: blanks around '!', spec nesting depth, quotes inside specs
    for src in ctx.shard(FSTRING_FIELD_FORMS):
        for tmpl in ("{S}\n", "x = {S}\n", "f({S}, 1)\n"):
            check(rec, {"src": tmpl.replace("{S}", src), "stream": "fstring-field-forms", "near": True})

    # ---- (c4) spellings and endings of small valid statements ---------------------------------------
    # every word of every statement respelled with NFKC-compatibility characters (a keyword spelled that way is no
    # keyword for CPython, an identifier is still the identifier); every statement ended in a dangling continuation
    def fullwidth(word):
        return "".join(chr(ord(ch) + 0xFEE0) if "!" <= ch <= "~" else ch for ch in word)

    COMPAT = {"f": "ｆ", "i": "ｉ", "n": "ｎ", "s": "ſ", "a": "ª", "o": "º", "e": "ｅ", "t": "ｔ"}
    for base in ctx.shard(SMALL_VALID + ["x = a if b else c\n", "if x: pass\n", "while x: pass\n", "x = a or b and not c\n", "x = a is not b\n", "try: pass\nfinally: pass\n", "None\n", "x = True\n"]):
        toks = mutate.lex(base)
        for i, t in enumerate(toks):
            if re.fullmatch(r"[A-Za-z_]\w*", t):
                for alt in {fullwidth(t), "".join(COMPAT.get(ch, ch) for ch in t[:1]) + t[1:], t[:-1] + fullwidth(t[-1])}:
                    if alt != t:
                        check(rec, {"src": "".join(toks[:i] + [alt] + toks[i + 1 :]), "stream": "compatibility-spelling", "near": True})
        body = base.rstrip("\n")
        for tail in ("\\\n", " \\\n", "\\", " \\", "\n\\\n", "\\\n\\\n", "; \\\n", "\n    \\\n", " \\\n\n"):
            check(rec, {"src": body + tail, "stream": "dangling-continuation", "near": True})
    for tail in ("\\\n", "\\", " \\\n", "\n\\\n"):
        for pre in ("", "x", "(", "x =", "pass", "if x: pass", "x = 1;"):
            check(rec, {"src": pre + tail, "stream": "dangling-continuation", "near": True, "mode_also": "eval"})

    # ---- (c5) indentation structures: a dedent must land on an ENCLOSING level (a column some closed block used does not count)
    from ..gen import lex

    def indents(rnd):
        if rnd.random() < 0.5:
            src = lex.indentation_program(rnd)
        else:
            # two sibling blocks; the second dedents onto a column only the first one used
            c1, c2, c3 = sorted(rnd.sample(range(1, 13), 3))
            first = rnd.choice([c2, c3])
            src = f"if a:\n{' ' * first}x = 1\nif b:\n{' ' * c1}if c:\n{' ' * (c3 + 2)}y = 2\n{' ' * rnd.choice([first, c2, c3])}z = 3\n"
        if "\t" in src or "\f" in src:
            return  # (tab/space ambiguity is stream (d) and finding D21)
        check(rec, {"src": src, "stream": "indentation-structure", "near": True})

    drive(st.randoms(use_true_random=False), indents, ctx.budget(6000, 100000), ctx.hseed("indents"))

    # ---- (c6) type-parameter forms: what 3.12 takes and what only later versions take (defaults, PEP 696)
    TP = ["T", "T: int", "T: (int, str)", "*Ts", "**P", "T = int", "T: int = str", "*Ts = int", "*Ts = *tuple[()]", "**P = int", "**P = [int]", "T, *Ts = (int, str)", "T = int, U", "*Ts: int", "**P: int", "T:", "= int", "T,, U", "*", "**"]
    for tp in ctx.shard(TP):
        for tmpl in ("def f[{P}](): pass\n", "class A[{P}]: pass\n", "type X[{P}] = int\n", "async def g[{P}](a): pass\n", "class B[{P}](C): pass\n"):
            check(rec, {"src": tmpl.replace("{P}", tp), "stream": "type-parameter-forms", "near": True})

    # ---- (d) tab/space ambiguity (expected: finding D21) ------------------------------------------
    def tabs(rnd):
        body = rnd.choice(["a", "pass", "x = 1"])
        i1 = rnd.choice(["\t", "        ", "    \t", " \t", "\t    "])
        i2 = rnd.choice(["\t", "        ", "    \t", " \t", "\t    ", "  \t"])
        src = f"if a:\n{i1}{body}\n{i2}{body}\n"
        check(rec, {"src": src, "stream": "tab-space-ambiguity"})

    drive(st.randoms(use_true_random=False), tabs, ctx.budget(300, 3000), ctx.hseed("tabs"))
