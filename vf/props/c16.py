"""C16 -- the shipped generated parsers are exactly what their grammars generate."""

from __future__ import annotations

import ast
import os
import shutil
import subprocess
import sys
import tempfile

from ..common import REPO

META = {
    "level": "translation_validation",
    "rule": (
        "programs: the two shipped (grammar, generated module) pairs -- tasks/xonsh.gram -> peg_parser/parser.py via tasks/generator.py, and "
        "pegen/metagrammar.gram -> pegen/grammar_parser.py via python -m pegen.  Each is regenerated into a temp dir in fresh interpreters "
        "under PYTHONHASHSEED in {0, 1, 5 seed-derived values} (thorough: 40) and twice under the same hash seed.  For three hash seeds (thorough: all) the "
        "generation is also run three times inside one interpreter (module imported once, main() called again): each output must equal the fresh one.  Oracle: (a) all regenerated "
        "outputs are byte-identical; (b) shipped vs regenerated: same class, same set of rule methods, and per method the same decorators, "
        "parameters and body AST (positions, formatting, comments, a trailing ';' and return annotations ignored), same KEYWORDS/SOFT_KEYWORDS, "
        "same module-level non-import statements, shipped imports a subset of the generated ones.  A case = one (pair, rule method) "
        "comparison under one hash seed; non-trivial = the method body has >= 3 statements; distinct by (pair, method)."
    ),
    "assumptions": ["the documented generation step is Taskfile.yml's 'generate' / 'generate-meta' without the ruff formatting pass (formatting is ignored by comparing ASTs)"],
}
MAX_WORKERS = 8

PAIRS = {
    "xonsh": ("peg_parser/parser.py", lambda out: [sys.executable, os.path.join(REPO, "tasks", "generator.py"), "-g", os.path.join(REPO, "tasks", "xonsh.gram"), "-o", out]),
    "meta": ("pegen/grammar_parser.py", lambda out: [sys.executable, "-m", "pegen", os.path.join(REPO, "pegen", "metagrammar.gram"), "-o", out, "-q"]),
}


def generate(pair: str, hashseed: int, outdir: str) -> tuple[str | None, str]:
    out = os.path.join(outdir, f"{pair}-{hashseed}-{len(os.listdir(outdir))}.py")
    env = dict(os.environ, PYTHONHASHSEED=str(hashseed), PYTHONPATH=REPO, PYTHONDONTWRITEBYTECODE="1")
    p = subprocess.run(PAIRS[pair][1](out), cwd=REPO, env=env, capture_output=True, text=True, timeout=600)
    if p.returncode != 0 or not os.path.exists(out):
        return None, (p.stderr or p.stdout)[-600:]
    with open(out, encoding="utf-8") as f:
        return f.read(), ""


REPEAT = {
    "xonsh": "import sys, pathlib\nimport tasks.generator as g\nfor o in sys.argv[2:]:\n    g.main(pathlib.Path(o), pathlib.Path(sys.argv[1]) / 'tasks' / 'xonsh.gram')\n",
    "meta": "import sys, os\nimport pegen.__main__ as m\nroot = sys.argv[1]\nfor o in sys.argv[2:]:\n    sys.argv = ['pegen', os.path.join(root, 'pegen', 'metagrammar.gram'), '-o', o, '-q']\n    m.main()\n",
}


def generate_repeatedly(pair: str, hashseed: int, outdir: str, times: int = 3):
    """run the generation `times` times inside ONE interpreter (the module imported once); -> (list of texts | None, stderr)"""
    outs = [os.path.join(outdir, f"{pair}-rep{k}.py") for k in range(times)]
    env = dict(os.environ, PYTHONHASHSEED=str(hashseed), PYTHONPATH=REPO, PYTHONDONTWRITEBYTECODE="1")
    p = subprocess.run([sys.executable, "-c", REPEAT[pair], REPO, *outs], cwd=REPO, env=env, capture_output=True, text=True, timeout=900)
    if p.returncode != 0 or not all(os.path.exists(o) for o in outs):
        return None, (p.stderr or p.stdout)[-600:]
    texts = []
    for o in outs:
        with open(o, encoding="utf-8") as f:
            texts.append(f.read())
    return texts, ""


class _Strip(ast.NodeTransformer):
    def visit_FunctionDef(self, node):
        node.returns = None
        for a in node.args.args + node.args.kwonlyargs + node.args.posonlyargs:
            a.annotation = None
        return self.generic_visit(node)


def norm(node) -> str:
    return ast.dump(_Strip().visit(node), include_attributes=False)


def module_facts(text: str):
    tree = ast.parse(text)
    imports, others, classes = set(), [], {}
    for st in tree.body:
        if isinstance(st, (ast.Import, ast.ImportFrom)):
            if isinstance(st, ast.Import):
                for a in st.names:
                    imports.add(("import", a.name, a.asname))
            else:
                for a in st.names:
                    imports.add(("from", st.module, st.level, a.name, a.asname))
        elif isinstance(st, ast.ClassDef):
            classes[st.name] = st
        elif isinstance(st, ast.Expr) and isinstance(st.value, ast.Constant) and isinstance(st.value.value, str):
            continue  # docstring / comment string
        else:
            others.append(norm(st))
    return imports, others, classes


def class_facts(cls: ast.ClassDef):
    methods, assigns = {}, {}
    for st in cls.body:
        if isinstance(st, ast.FunctionDef):
            methods[st.name] = st
        elif isinstance(st, (ast.Assign, ast.AnnAssign)):
            tgt = st.targets[0] if isinstance(st, ast.Assign) else st.target
            assigns[ast.unparse(tgt)] = ast.dump(st.value) if st.value is not None else None
    return methods, assigns


def check(rec, case):
    pair, h = case["pair"], case["hashseed"]
    outdir = tempfile.mkdtemp(prefix="vf-c16-", dir=os.environ.get("VERIF_WORKER_TMP"))
    try:
        gen1, err = generate(pair, h, outdir)
        if gen1 is None:
            rec.case(case, False)
            rec.fail(case, f"generator-failed:{pair}", {"stderr": err})
            return
        gen2, _ = generate(pair, h, outdir)
        if gen2 != gen1:
            rec.case(case, False)
            rec.fail(case, f"nondeterministic-same-hashseed:{pair}", {"hashseed": h})
            return
        if case.get("repeat"):
            # the generator is a library too: a second and third run in the same interpreter give the same file
            reps, err = generate_repeatedly(pair, h, outdir)
            if reps is None:
                rec.fail(case, f"generator-failed-when-run-repeatedly:{pair}", {"stderr": err})
                return
            for k, t in enumerate(reps):
                if t != gen1:
                    rec.fail(case, f"output-depends-on-earlier-generation-in-process:{pair}", {"run": k + 1, "hashseed": h, "length": [len(gen1), len(t)]})
                    return
    finally:
        shutil.rmtree(outdir, ignore_errors=True)
    ref = _REFS.get(pair)
    if ref is not None and ref != gen1:
        rec.fail(case, f"output-depends-on-hashseed:{pair}", {"hashseed": h})
    with open(os.path.join(REPO, PAIRS[pair][0]), encoding="utf-8") as f:
        shipped = f.read()
    s_imp, s_other, s_cls = module_facts(shipped)
    g_imp, g_other, g_cls = module_facts(gen1)
    if set(s_cls) != set(g_cls):
        rec.case(case, False)
        rec.fail(case, f"class-names:{pair}", {"shipped": sorted(s_cls), "generated": sorted(g_cls)})
        return
    if not s_imp <= g_imp:
        rec.fail(case, f"shipped-import-not-generated:{pair}", {"extra": sorted(map(str, s_imp - g_imp))[:5]})
    if s_other != g_other:
        rec.fail(case, f"module-level-statements:{pair}", {"shipped": len(s_other), "generated": len(g_other)})
    n = 0
    for cname in s_cls:
        sm, sa = class_facts(s_cls[cname])
        gm, ga = class_facts(g_cls[cname])
        if sa != ga:
            diff = [k for k in set(sa) | set(ga) if sa.get(k) != ga.get(k)]
            rec.fail(case, f"class-attributes:{pair}:{','.join(sorted(diff))[:60]}", {"differs": diff})
        if set(sm) != set(gm):
            rec.fail(case, f"method-set:{pair}", {"only_shipped": sorted(set(sm) - set(gm))[:10], "only_generated": sorted(set(gm) - set(sm))[:10]})
        for name in sorted(set(sm) & set(gm)):
            n += 1
            a, b = sm[name], gm[name]
            rec.case({"pair": pair, "method": name, "hashseed": h}, len(a.body) >= 3, labels=(f"pair:{pair}",), key=(pair, name))
            if norm(a) != norm(b):
                da = [ast.unparse(d) for d in a.decorator_list]
                db = [ast.unparse(d) for d in b.decorator_list]
                what = "decorators" if da != db else ("parameters" if ast.dump(a.args) != ast.dump(b.args) and norm(a.args) != norm(b.args) else "body")
                rec.fail({"pair": pair, "method": name, "hashseed": h}, f"method-differs:{pair}:{what}:{name}", {"shipped": ast.unparse(a)[:400], "generated": ast.unparse(b)[:400]})
    rec.notes["programs"] = 2
    rec.notes["disagreements_checked"] = rec.notes.get("disagreements_checked", 0) + n
    return gen1


SHRINK_FIELDS = ()
_REFS: dict = {}


def search(rec, ctx):
    rng = ctx.rng("hashseeds")
    master = __import__("random").Random(ctx.seed)
    seeds = [0, 1] + [master.randrange(2, 2**31) for _ in range(38 if ctx.thorough else 5)]
    jobs = [(pair, h) for h in seeds for pair in ("xonsh", "meta")]
    # every worker also regenerates under hash seed 0 as the reference for "independent of the hash seed"
    for i, (pair, h) in enumerate(jobs):
        if i % ctx.n != ctx.k:
            continue
        if pair not in _REFS:
            outdir = tempfile.mkdtemp(prefix="vf-c16-ref-", dir=os.environ.get("VERIF_WORKER_TMP"))
            try:
                _REFS[pair], _ = generate(pair, 0, outdir)
            finally:
                shutil.rmtree(outdir, ignore_errors=True)
        check(rec, {"pair": pair, "hashseed": h, "repeat": h in seeds[:3] or ctx.thorough})
    rec.notes["hash_seeds"] = seeds[:8]
