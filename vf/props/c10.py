"""C10 -- f-strings (tokens and trees) agree with CPython, incl. nested fields and specs."""

from __future__ import annotations

import ast
import io
import token as pytoken
import tokenize as pytok

from hypothesis import strategies as st

from .. import known
from ..common import astdiff, cpy, diff_signature, outcome, tokens_outcome
from ..gen import corpus
from ..gen.fstr import FGen
from ..hyp import drive
from .c09 import STRUCT

META = {
    "level": "exploration",
    "rule": (
        "inputs: f-string literals from a feature grammar (prefix case/order x quote style x parts: plain text, escapes, doubled braces, "
        "other-kind quotes, non-ASCII, newlines in triple quotes; fields with expressions incl. strings of the same/other quote, nested "
        "f-strings to depth 2, multi-line fields, backslashes; '=' debug, !r/!s/!a, specs with text and nested fields to depth 2), embedded in "
        "statements exercising adjacency (concatenation with plain strings and f-strings, several literals per line / on separate lines, "
        "braces later on the line, across lines in brackets), plus every statement of the corpus sample that contains an f-string; hand-written edge forms; "
        "every run of up to three adjacent literals out of 14 kinds and every run of up to three pieces inside one literal out of 16 kinds (longer runs "
        "sampled); an f-string text soup (runs of backslashes, quotes of every kind, braces, fields in every delimiter and prefix); where a text has a "
        "backslash-newline the token comparison is repeated on its CRLF spelling.  "
        "Only texts ast.parse accepts.  Oracle: astdiff(ast.parse, parse_string, positions=True) is empty; token streams (incl. FSTRING_START/"
        "MIDDLE/END) equal CPython's tokenize unless the literal contains doubled braces (CPython's tokenize shortens those middles itself).  "
        "non-trivial = >=1 replacement field plus >=1 of {conversion, '=', spec, nested field, nested f-string, escape, doubled brace, "
        "adjacency, multi-line}; distinct by text."
    ),
    "assumptions": ["reference = ast.parse / tokenize of the CPython 3.12 running the check", "raw f-strings with a backslash inside a format spec are excluded and counted: CPython 3.12.1 decodes escapes there but not in the literal's text", "token comparison is skipped where the reference tokenizer is itself inconsistent (doubled braces, coordinates after non-ASCII text)"],
}

import re

DEBUG_WITH_HASH = re.compile(r"\{[^{}]*#[^{}]*=\s*[!:}]", re.S)
RAW_PREFIX = re.compile(r"""(?i)(?<![A-Za-z0-9_])(?:rf|fr)(?=['"])""")
BACKSLASH_IN_SPEC = re.compile(r""":[^{}'"\n]*\\""")

NT_FEATURES = {"conversion", "debug=", "spec", "empty-spec", "nested-spec-field", "nested-fstring", "escape", "doubled-brace", "multi-line-field", "newline-in-text", "concat-plain-after", "concat-plain-before", "concat-fstring", "two-fstrings-on-line", "brace-after-on-line", "fstrings-on-separate-lines", "concat-across-lines", "backslash-in-field", "raw-backslash"}


def theirs(src):
    out = []
    lines = src.split("\n")
    offs = [0]
    for ln in lines:
        offs.append(offs[-1] + len(ln) + 1)
    for t in pytok.generate_tokens(io.StringIO(src).readline):
        n = pytoken.tok_name[t.type]
        if n in ("COMMENT", "NL"):
            continue
        if n in ("NAME", "NUMBER", "STRING", "OP", "FSTRING_START", "FSTRING_MIDDLE", "FSTRING_END"):
            (l1, c1), (l2, c2) = t.start, t.end
            if l1 - 1 >= len(lines) or l2 - 1 >= len(lines) or src[offs[l1 - 1] + c1 : offs[l2 - 1] + c2] != t.string:
                return None
        out.append((n, t.string, tuple(t.start), tuple(t.end)))
    return out


def ours(toks):
    return [(t.type.name, t.string, tuple(t.start), tuple(t.end)) for t in toks if t.type.name not in ("WS", "COMMENT", "NL")]


def normalise(toks):
    """zero-width FSTRING_MIDDLE tokens (CPython emits one for an empty format spec) are dropped and
    adjacent FSTRING_MIDDLE tokens (CPython splits at \\N{...}) are merged: artefacts of the reference"""
    out = []
    for t in toks:
        if t[0] == "FSTRING_MIDDLE" and t[1] == "":
            continue
        if out and t[0] == "FSTRING_MIDDLE" and out[-1][0] == "FSTRING_MIDDLE" and out[-1][3] == t[2]:
            out[-1] = ("FSTRING_MIDDLE", out[-1][1] + t[1], out[-1][2], t[3])
        else:
            out.append(t)
    return out


def compare_tokens(a, b):
    a, b = normalise(a), normalise(b)
    for i, (x, y) in enumerate(zip(a, b)):
        if y[0] in STRUCT or x[0] in STRUCT:
            if x[0] != y[0]:
                return (f"token-kind:{y[0]}->{x[0]}", {"index": i, "ours": x, "cpython": y})
            continue
        if x != y:
            what = "kind" if x[0] != y[0] else ("string" if x[1] != y[1] else "position")
            return (f"token-{what}:{y[0]}->{x[0]}", {"index": i, "ours": x, "cpython": y})
    if len(a) != len(b):
        return ("token-length", {"ours": len(a), "cpython": len(b), "ours_tail": a[-3:], "cpython_tail": b[-3:]})
    return None


EDGE_FORMS = ['f\'{a:{f"{b:{c:{d}}}"}}\'', 'f\'{o:{a:{f"{b:{c}}"}}}\'', "f'{a:{b:{c}}}'", "f'{a:{b}{c:{d}}}'", 'f"{x:{f\'{y:{z}}\'}}"', 'f\'{f"{a:{b:{c}}}":{d:{e}}}\'', 'f"{f\'a\'} {x:\'>3}"', 'f"{f\'a\':\'>5}"', 'f"""{f"a"} {x:">3}"""', 'f\'{f"b"}{y:"^4}\'', "f'''{f'{q}'} {x:'<2}'''", 'rf"{f\'a\'}{x:\'>3}\\d"', 'f"{rf\'\\d\'} {x:\'>3}"', "f'{{{x:>5}}}'", "f'{x:{y:>5}}'", "f'{x:{y:{z}}}'", "f'{{{x}}}'", "f'{x:>5}}}'", "f'{{{x:{w}}}}}}'", "f'}}{x:}}}'", 'f"{a}\\\n{b}"', 'f"""\\\n{x} y"""', "f'{a}\\\n'", 'f"\\\n{a}\\\n"', 'f"say \\"hi\\" to \'{name}\'"', 'f\'it\\\'s "{x}"\'', 'f"\\t\'{a}\'\\"{b}\\""', 'f\'\'\'\\\'""{q}"\'\\n\'\'\'', 'f"\'{a}\' \\\\"', 'f\'{"""a\nb"""}\'', 'f\'<{"""\n""".join(rows)}>\'', 'f"{\'\'\'x\ny\'\'\'!r:>4}"', 'f\'{f"""a\n{b}"""}\'', 'f\'{a}{"""\n"""}{b:{"""w\n"""}}\'', 'rf\'{r"""\\\n"""}\\d\'', 'fR\'\\n{x}\'', 'Rf"\\t{x=}\\n"', 'FR\'\'\'\\d{y:\\d}\'\'\'', 'RF"{z!r}\\\\"']


RUN_PIECES = ["''", "'x'", "f''", "f'{a}'", "f'\\\n'", "f'y'", "f'\\\nq'", "f'{a}\\\n'", "u'v'", "'''\n'''", "f'''{b}\n'''", 'f"{c}\\\n{d}"', "u''", 'r"\\"']


INNER_PIECES = ["\\\n", "{f=}", "{g}", "y", "{{", "}}", "{h:>3}", "{k = }", "{m:\\\n}", " ", "{n:{w}}", "\\t", "{p!r}", "\\N{DIGIT ONE}", "\\x41", "\\\\"]


def strip_empty_spec_constants(tree):
    """CPython 3.12.1 appends Constant('') to a format spec that ends in a nested field; an empty
    constant in a spec means nothing, so it is dropped from both trees before comparing"""
    for n in ast.walk(tree):
        if isinstance(n, ast.FormattedValue) and isinstance(n.format_spec, ast.JoinedStr):
            n.format_spec.values = [v for v in n.format_spec.values if not (isinstance(v, ast.Constant) and v.value == "")]
            # ... and it splits the spec's text at a \N{...} escape into two adjacent constants (in literal text it
            # merges them): adjacent constants of a spec are joined, spans included, on both sides
            merged = []
            for v in n.format_spec.values:
                if merged and isinstance(v, ast.Constant) and isinstance(merged[-1], ast.Constant) and isinstance(v.value, str) and isinstance(merged[-1].value, str):
                    a = merged[-1]
                    merged[-1] = ast.Constant(value=a.value + v.value, kind=getattr(a, "kind", None), lineno=a.lineno, col_offset=a.col_offset, end_lineno=v.end_lineno, end_col_offset=v.end_col_offset)
                else:
                    merged.append(v)
            n.format_spec.values = merged
    return tree


def has_field(tree):
    return any(isinstance(n, ast.FormattedValue) for n in ast.walk(tree))


def check(rec, case):
    src = case["src"]
    feats = set(case.get("features", ()))
    stream = case.get("stream", "?")
    c = cpy(src)
    if c.kind != "tree":
        rec.case(case, False, labels=(f"stream:{stream}", f"cpython:{c.kind}"))
        return
    if not any(isinstance(n, ast.JoinedStr) for n in ast.walk(c.tree)):
        rec.exclude("no-f-string")
        return
    if "@(" in src:
        rec.exclude("at-paren-digraph")
        return
    if DEBUG_WITH_HASH.search(src) or ("debug=" in feats and "#" in src):
        # CPython 3.12.1 cuts the debug text at any '#', even inside a string ('{"#"=}' gives '"'):
        # the reference is unreliable for '#' inside a '=' field, in both directions
        rec.exclude("hash-inside-debug-field(reference-bug)")
        return
    if RAW_PREFIX.search(src) and "\\" in src and any("\\" in (ast.get_source_segment(src, n.format_spec) or "") for n in ast.walk(c.tree) if isinstance(n, ast.FormattedValue) and n.format_spec is not None):
        # CPython 3.12.1 decodes backslash escapes inside the format spec of a RAW f-string (rf'{d:\t}' has a tab in its
        # spec, rf'\t{d}' a backslash and a 't' in its text): the reference contradicts itself and the language reference
        rec.exclude("backslash-in-spec-of-raw-f-string(reference-bug)")
        return
    nt = has_field(c.tree) and (bool(feats & NT_FEATURES) or stream == "corpus")
    labels = [f"stream:{stream}"] + [f"feature:{f}" for f in sorted(feats)]
    rec.case(case, nt, labels=labels, key=src)
    o = outcome(src)
    if o.kind != "tree":
        cn = o.canon()
        rec.fail(case, f"not-accepted:{cn[0]}:{o.etype}:{(cn[2] if len(cn) > 2 else '')[:40]}", {"outcome": [str(x)[:160] for x in cn]})
        return
    d = astdiff(strip_empty_spec_constants(c.tree), strip_empty_spec_constants(o.tree), positions=True)
    if d is not None:
        rec.fail(case, "tree:" + diff_signature(d), {"path": d[0], "kind": d[1], "expected": d[2], "got": d[3]})
        return
    if "{{" in src or "}}" in src:
        rec.count("token-comparison-skipped:doubled-brace")
        return
    try:
        b = theirs(src)
    except (pytok.TokenError, SyntaxError, IndentationError, ValueError, SystemError):
        rec.count("token-comparison-skipped:cpython-tokenize-rejects")
        return
    if b is None:
        rec.count("token-comparison-skipped:cpython-coordinates-inconsistent")
        return
    kind, val = tokens_outcome(src)
    if kind != "tokens":
        rec.fail(case, f"tokens-rejected:{val.etype}", {"outcome": [str(x)[:160] for x in val.canon()]})
        return
    dt = compare_tokens(ours(val), b)
    if dt is not None:
        rec.fail(case, dt[0], dt[1])
        return
    if "\\\n" in src and "\r" not in src:
        # the same text with CRLF line ends, token level only (the parser's entry points translate line ends, generate_tokens
        # gets them as they are): a backslash still continues the line it ends
        crlf = src.replace("\n", "\r\n")
        try:
            b2 = theirs(crlf)
        except (pytok.TokenError, SyntaxError, IndentationError, ValueError, SystemError):
            return
        if b2 is None:
            return
        rec.count("crlf-token-comparisons")
        kind, val = tokens_outcome(crlf)
        if kind != "tokens":
            rec.fail(dict(case, crlf_variant=True), f"tokens-rejected:crlf:{val.etype}", {"outcome": [str(x)[:160] for x in val.canon()]})
            return
        dt = compare_tokens(ours(val), b2)
        if dt is not None:
            rec.fail(dict(case, crlf_variant=True), "crlf:" + dt[0], dt[1])


def search(rec, ctx):
    for lit in ctx.shard(EDGE_FORMS):
        for tmpl in ("x = {S}\n", "print({S}, {S})\n", "if c:\n    y = {S}\nz = 1\n", "v = ({S}\n     'tail')\n"):
            check(rec, {"src": tmpl.replace("{S}", lit), "stream": "edge-forms", "features": ["edge-form"]})
    # runs of adjacent literals: every sequence of up to three pieces (and a sample of four) out of plain, empty, u-prefixed,
    # multi-line and f-string pieces, among them f-string text that is empty once decoded (a lone backslash-newline): which
    # piece lends its start, its end and its kind to the merged constant
    import itertools

    runs = [c for k in (1, 2, 3) for c in itertools.product(RUN_PIECES, repeat=k)]
    rrng = ctx.rng("literal-runs")
    runs += [tuple(rrng.choice(RUN_PIECES) for _ in range(rrng.choice([4, 5]))) for _ in range(4000 if ctx.thorough else 400)]
    for combo in ctx.shard(runs):
        check(rec, {"src": "x = (" + " ".join(combo) + ")\n", "stream": "literal-runs", "features": ["edge-form"]})

    # ... and runs of pieces inside ONE literal: text, text that is empty once decoded, doubled braces, plain / debug / spec
    # fields, in a single-quoted and a triple-quoted literal (which piece the merged constants take their spans from)
    inner = [c for k in (1, 2, 3) for c in itertools.product(INNER_PIECES, repeat=k)]
    inner += [tuple(rrng.choice(INNER_PIECES) for _ in range(rrng.choice([4, 5]))) for _ in range(4000 if ctx.thorough else 500)]
    for j, combo in enumerate(ctx.shard(inner)):
        q = "'" if j % 2 else '"""'
        check(rec, {"src": "x = f" + q + "".join(combo) + q + "\n", "stream": "piece-runs", "features": ["edge-form"]})

    def gen(rnd):
        g = FGen(rnd, nonascii=rnd.random() < 0.1)
        src = g.statement()
        check(rec, {"src": src, "stream": "g7", "features": sorted(g.feats)})

    drive(st.randoms(use_true_random=False), gen, ctx.budget(48000, 400000), ctx.hseed("g7"))
    # literal text made of backslashes, quotes of every kind, braces and fields in every delimiter: what CPython accepts
    # must come out with CPython's tree
    from ..gen.fstr import text_soup

    drive(st.randoms(use_true_random=False), lambda rnd: check(rec, {"src": text_soup(rnd), "stream": "text-soup", "features": ["edge-form"]}), ctx.budget(8000, 100000), ctx.hseed("soup"))

    crng = ctx.rng("corpus")
    files = corpus.test_data_files() + (list(ctx.shard(corpus.stdlib_files())) if ctx.thorough else crng.sample(corpus.stdlib_files(), min(12, len(corpus.stdlib_files()))))
    for p in files:
        text = corpus.read_text(p)
        if text is None or ("f'" not in text and 'f"' not in text and "F'" not in text and 'F"' not in text):
            continue
        for s in corpus.statements(text):
            if len(s) < 3000 and ("f'" in s or 'f"' in s or "F'" in s or 'F"' in s):
                check(rec, {"src": s, "stream": "corpus"})
