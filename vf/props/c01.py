"""C01 -- pure-Python sources parse to exactly CPython's AST (types, fields, spans)."""

from __future__ import annotations

import ast
import re

from hypothesis import strategies as st

from .. import known
from ..common import astdiff, cpy, diff_signature, node_classes, outcome
from ..gen import corpus, layout
from ..gen.pysrc import PyGen
from ..hyp import drive

META = {
    "level": "exploration",
    "rule": (
        "inputs: G1 generated programs (exec) and expressions (eval and exec), G2 layout variants (CRLF, tabs, form feeds, "
        "backslash continuations, comments, blank lines, newlines inside brackets, missing final newline; self-checked to be the "
        "same program), G3 corpus statements (repo test data + stdlib sample; thorough: whole stdlib) and whole test-data files, every ordered pair "
        "/ triple of adjacent string-literal kinds, and one program of >= 100 000 tokens per run (thorough: one per worker, up to 250 000). "
        "Only texts CPython accepts, without '@(' , BOM/NUL, nesting>50 (f-strings included, with C10's normalisation of the reference's "
        "format-spec artefacts). Oracle: field-by-field and span-by-span comparison with ast.parse. non-trivial = accepted by CPython and the tree has >=4 distinct node classes besides "
        "Module/Expression/Expr/Load/Store; distinct by (mode, text)."
    ),
    "assumptions": [
        "CPython 3.12's ast.parse (the interpreter running the check) is the reference",
        "type_comments are not requested from CPython",
        "harness recursion limit 20000 / 1 GB stack so that nesting <= 50 never meets Python's own limit",
    ],
}

TRIVIAL = {"Module", "Expression", "Expr", "Load", "Store"}
_OPEN, _CLOSE = "([{", ")]}"


def max_nesting(src: str) -> int:
    d = m = 0
    for ch in src:
        if ch in _OPEN:
            d += 1
            m = max(m, d)
        elif ch in _CLOSE:
            d = max(0, d - 1)
    return m


def in_domain(src: str, tree) -> str | None:
    """None if in C01's domain, else the exclusion label"""
    if "@(" in src:
        return "at-paren-digraph"
    if "\x00" in src or "﻿" in src:
        return "bom-or-nul"
    if "=" in src and "#" in src and any(isinstance(n, ast.JoinedStr) for n in ast.walk(tree)):
        from .c10 import DEBUG_WITH_HASH  # CPython 3.12.1 cuts the text of a '=' field at any '#': see C10

        if DEBUG_WITH_HASH.search(src):
            return "hash-inside-debug-field(reference-bug)"
    if max_nesting(src) > 50:
        return "nesting>50"
    return None


def cpy_lines(src: str):
    return re.split(r"\r\n|\r|\n", src)


def byte_to_char_conv(src: str):
    """converter for astdiff: CPython's UTF-8 byte columns -> character columns"""
    lines = cpy_lines(src)

    def one(l, c):
        if not isinstance(l, int) or not isinstance(c, int) or l < 1 or l > len(lines):
            return c
        b = lines[l - 1].encode("utf-8", "surrogatepass")
        try:
            return len(b[:c].decode("utf-8", "surrogatepass"))
        except UnicodeDecodeError:
            return c

    def conv(node, ep):
        l, c, el, ec = ep
        return (l, one(l, c), el, one(el, ec))

    return conv


@known.matcher
def utf8_columns(case, signature, detail):
    """D7: the only difference is CPython's UTF-8 byte columns vs this parser's character columns"""
    src = case["src"]
    if src.isascii() or not signature.startswith(("position:", "tree:position:")):
        return False
    mode = case.get("mode", "exec")
    c = cpy(src, mode)
    o = outcome(src, mode)
    if c.kind != "tree" or o.kind != "tree":
        return False
    from .c10 import strip_empty_spec_constants  # same reference normalisation as C10's oracle

    return astdiff(strip_empty_spec_constants(c.tree), strip_empty_spec_constants(o.tree), positions=True, conv=byte_to_char_conv(src)) is None


def check(rec, case):
    src, mode = case["src"], case.get("mode", "exec")
    stream = case.get("stream", "?")
    c = cpy(src, mode)
    if c.kind != "tree":
        rec.case(case, False, labels=(f"stream:{stream}", "cpython-rejects"))
        return
    why = in_domain(src, c.tree)
    if why:
        rec.exclude(why)
        return
    classes = node_classes(c.tree)
    nt = len(classes - TRIVIAL) >= 4
    labels = [f"stream:{stream}", f"mode:{mode}"]
    if not src.isascii():
        labels.append("non-ascii")
    for f in case.get("features", ()):
        labels.append(f"layout:{f}")
    rec.case(case, nt, labels=labels, key=(mode, src))
    for cl in classes:
        rec.hist[f"node:{cl}"] += 1
    o = outcome(src, mode)
    if o.kind != "tree":
        c0 = o.canon()
        sig = f"not-accepted:{c0[0]}:{c0[1] if len(c0) > 1 else ''}:{o.site}"
        rec.fail(case, sig[:160], {"outcome": [str(x)[:200] for x in c0]})
        return
    from .c10 import strip_empty_spec_constants  # the reference's own artefacts inside format specs (see C10)

    d = astdiff(strip_empty_spec_constants(c.tree), strip_empty_spec_constants(o.tree), positions=True)
    if d is not None:
        rec.fail(case, diff_signature(d), {"path": d[0], "kind": d[1], "expected": d[2], "got": d[3]})


def search(rec, ctx):
    crng = ctx.rng("corpus")
    if ctx.thorough:
        files = corpus.test_data_files() + list(ctx.shard(corpus.stdlib_files()))
    else:
        files = list(ctx.shard(corpus.test_data_files())) + crng.sample(corpus.stdlib_files(), min(6, len(corpus.stdlib_files())))
    corp = []
    for p in files:
        text = corpus.read_text(p)
        if text is None:
            continue
        if "/tests/data/" in p:
            check(rec, {"src": text, "mode": "exec", "stream": "test-data-file"})
        sts = corpus.statements(text)
        if not ctx.thorough and len(sts) > 60:
            sts = crng.sample(sts, 60)
        corp.extend(sts)
    rec.notes["corpus_statements"] = rec.notes.get("corpus_statements", 0) + len(corp)
    rec.notes["stdlib_available"] = bool(corpus.stdlib_files())
    for s in corp:
        check(rec, {"src": s, "mode": "exec", "stream": "corpus"})

    from ..gen import lex

    for s in ctx.shard(list(lex.string_concat_matrix())):
        check(rec, {"src": "x = " + s + "\n", "mode": "exec", "stream": "string-concat-matrix"})

    # one long program (>= 100 000 tokens; thorough: one per worker, up to 250 000): size-dependent behaviour of the
    # token cache, the memo table and the line bookkeeping only shows on inputs far larger than any test
    if ctx.k == 0 or ctx.thorough:
        lrng = ctx.rng("long-program")
        target = 430_000 if not ctx.thorough else lrng.choice([430_000, 700_000, 1_000_000])
        pool = [s if s.endswith("\n") else s + "\n" for s in corp if s.isascii() and cpy(s).kind == "tree"]
        parts, size = [], 0
        while pool and size < target:
            st_ = pool[lrng.randrange(len(pool))]
            parts.append(st_)
            size += len(st_)
        if size >= target:
            check(rec, {"src": "".join(parts), "mode": "exec", "stream": "long-program"})

    import itertools

    CLAUSES = ["except:", "except E:", "except E as e:", "except* E:", "else:", "finally:"]
    for seq in ctx.shard([s for n in (1, 2, 3) for s in itertools.product(CLAUSES, repeat=n)]):
        check(rec, {"src": "try:\n    a\n" + "".join(c + "\n    b\n" for c in seq), "mode": "exec", "stream": "try-clause-sequences"})
    for key in ctx.shard(["1j", "-2.5J", "1+2j", "-1-1j", "0j", "1.5", "-3", "'k'", "b'k'", "None", "True", "a.b", "U'k'", "'a' 'b'"]):
        for tmpl in ("match v:\n    case {{{K}: a}}: pass\n", "match v:\n    case {{{K}: a, **rest}}: pass\n", "match v:\n    case {K}: pass\n", "match v:\n    case [{K}, *_] | {K}: pass\n"):
            check(rec, {"src": tmpl.replace("{{", "\x00").replace("}}", "\x01").replace("{K}", key).replace("\x00", "{").replace("\x01", "}"), "mode": "exec", "stream": "pattern-literals"})

    seeds_for_layout = list(corp)

    def g1(rnd):
        nonascii = rnd.random() < 0.12
        g = PyGen(rnd, nonascii=nonascii)
        if rnd.random() < 0.3:
            src = g.expr(0)
            check(rec, {"src": src, "mode": "eval", "stream": "g1-expr"})
            check(rec, {"src": src + "\n", "mode": "exec", "stream": "g1-expr"})
        else:
            src = g.program(4)
            check(rec, {"src": src, "mode": "exec", "stream": "g1-program"})
        if rnd.random() < 0.5:
            v = layout.variant(rnd, src if src.endswith("\n") else src + "\n")
            if v is None:
                rec.exclude("layout-variant-rejected-by-self-check")
            else:
                check(rec, {"src": v[0], "mode": "exec", "stream": "g2-layout-of-g1", "features": sorted(v[1])})

    drive(st.randoms(use_true_random=False), g1, ctx.budget(10000, 120000), ctx.hseed("g1"))

    def g2(rnd):
        if not seeds_for_layout:
            return
        s = seeds_for_layout[rnd.randrange(len(seeds_for_layout))]
        v = layout.variant(rnd, s)
        if v is None:
            rec.exclude("layout-variant-rejected-by-self-check")
            return
        check(rec, {"src": v[0], "mode": "exec", "stream": "g2-layout-of-corpus", "features": sorted(v[1])})

    drive(st.randoms(use_true_random=False), g2, ctx.budget(6000, 60000), ctx.hseed("g2"))
