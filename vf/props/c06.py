"""C06 -- subprocess args follow source word boundaries and map to the right runtime call."""

from __future__ import annotations

import ast
import itertools

from hypothesis import strategies as st

from ..common import astdiff, outcome
from ..gen import xonsh
from ..hyp import drive

META = {
    "level": "exploration",
    "rule": (
        "inputs: command lines from a word model -- a command is a list of words, a word a list of pieces (plain text over the shell-word "
        "alphabet incl. ~65 curated number-like/operator-like spellings, complete quoted strings with r/b/u prefixes, $NAME, @(expr), @$(cmd), "
        "nested $() $[] !() ![]), joined by runs of spaces/tabs (thorough: newlines), optional leading/trailing blanks, inside one of the four "
        "bracket forms; thorough adds the EXHAUSTIVE set of all words of length <=3 over a 22-character alphabet as the middle of three words.  "
        "Words containing a Python reserved word as an identifier-shaped token are excluded (counted).  Oracle: a reference splitter over the "
        "GENERATED pieces (it never tokenises): one argument per word, in order; plain/quoted-only words are exactly one str Constant with the "
        "verbatim text; other words, flattened through BinOp(Add)/Tuple, yield the pieces with adjacent constants merged ($N -> env lookup, "
        "@(e) -> starred list_of_strs_or_callables(ast.parse(e)), @$(..) -> starred subproc_captured_inject(...), nested forms recursively); the "
        "outer func is the runtime name of the bracket form.  non-trivial = >=2 words and some word that tokenises into >=2 tokens; "
        "distinct by text."
    ),
    "assumptions": ["the shape gluing the pieces of a mixed word (+ chain vs tuple) is not prescribed by the property and not checked"],
}

EXH_ALPHABET = "a1_-./=:,+%^~*<>|&;@9x"


def flatten(node):
    if isinstance(node, ast.BinOp) and isinstance(node.op, ast.Add):
        return flatten(node.left) + flatten(node.right)
    if isinstance(node, ast.Tuple):
        return [x for e in node.elts for x in flatten(e)]
    return [node]


def tuple_inside_plus(node) -> bool:
    """the two documented glue shapes are a '+' chain of str-valued pieces and a tuple of parts (prefix@(..)suffix);
    a Tuple or Starred as an operand of '+' is neither (and cannot be evaluated)"""
    if isinstance(node, ast.BinOp) and isinstance(node.op, ast.Add):
        for side in (node.left, node.right):
            if isinstance(side, (ast.Tuple, ast.Starred)) or tuple_inside_plus(side):
                return True
    if isinstance(node, ast.Tuple):
        return any(tuple_inside_plus(e) for e in node.elts)
    return False


def is_xonsh_call(node, name):
    return (
        isinstance(node, ast.Call)
        and isinstance(node.func, ast.Attribute)
        and isinstance(node.func.value, ast.Name)
        and node.func.value.id == "__xonsh__"
        and node.func.attr == name
    )


def merge_constants(nodes):
    """adjacent str constants of a flattened argument count as one piece (the gluing shape is not prescribed)"""
    out = []
    for n in nodes:
        if out and isinstance(n, ast.Constant) and isinstance(n.value, str) and isinstance(out[-1], ast.Constant) and isinstance(out[-1].value, str):
            out[-1] = ast.Constant(value=out[-1].value + n.value)
        else:
            out.append(n)
    return out


def expected_pieces(word):
    """merge adjacent plain/quoted pieces into constants"""
    out = []
    for kind, text, payload in word:
        if kind in ("plain", "quoted"):
            if out and out[-1][0] == "const":
                out[-1] = ("const", out[-1][1] + text)
            else:
                out.append(("const", text))
        else:
            out.append((kind, text, payload))
    return out


def check_args(cmd, call, path="") -> tuple[str, dict] | None:
    o, c, fn = cmd.form
    if not is_xonsh_call(call, fn):
        return ("wrong-runtime-call", {"at": path, "expected": fn, "got": ast.dump(call.func)[:120] if isinstance(call, ast.Call) else type(call).__name__})
    if call.keywords:
        return ("unexpected-keywords", {"at": path})
    if len(call.args) != len(cmd.words):
        return ("argument-count", {"at": path, "expected": len(cmd.words), "got": len(call.args), "expected_words": ["".join(p[1] for p in w) for w in cmd.words], "got_args": [ast.unparse(a)[:60] for a in call.args]})
    for i, (word, arg) in enumerate(zip(cmd.words, call.args)):
        exp = expected_pieces(word)
        bad_glue = tuple_inside_plus(arg)
        if bad_glue:
            return ("glue-shape:tuple-or-starred-as-operand-of-plus", {"at": f"{path}arg{i}", "got": ast.unparse(arg)[:120]})
        got = merge_constants(flatten(arg))
        here = f"{path}arg{i}"
        if len(exp) == 1 and exp[0][0] == "const":
            if not (isinstance(arg, ast.Constant) and isinstance(arg.value, str)):
                return ("plain-word-not-a-constant", {"at": here, "expected": exp[0][1], "got": ast.unparse(arg)[:80]})
        if len(exp) != len(got):
            return ("piece-count", {"at": here, "expected": [e[:2] for e in exp], "got": [ast.unparse(g)[:50] for g in got]})
        for e, g in zip(exp, got):
            kind = e[0]
            if kind == "const":
                if not (isinstance(g, ast.Constant) and isinstance(g.value, str) and g.value == e[1]):
                    return ("constant-text", {"at": here, "expected": e[1], "got": ast.unparse(g)[:80]})
            elif kind == "env":
                ok = isinstance(g, ast.Subscript) and ast.unparse(g.value) == "__xonsh__.env" and isinstance(g.slice, ast.Constant) and g.slice.value == e[2]
                if not ok:
                    return ("env-lookup", {"at": here, "expected": e[1], "got": ast.unparse(g)[:80]})
            elif kind == "pyexpr":
                if not (isinstance(g, ast.Starred) and is_xonsh_call(g.value, "list_of_strs_or_callables") and len(g.value.args) == 1):
                    return ("pyexpr-shape", {"at": here, "expected": e[1], "got": ast.unparse(g)[:80]})
                ref = ast.parse(e[2], mode="eval").body if " for " not in e[2] else ast.parse(f"({e[2]})", mode="eval").body
                from .c10 import strip_empty_spec_constants  # CPython's own artefacts inside format specs (see C10)

                if astdiff(strip_empty_spec_constants(ref), strip_empty_spec_constants(g.value.args[0]), positions=False) is not None:
                    return ("pyexpr-content", {"at": here, "expected": e[2], "got": ast.unparse(g.value.args[0])[:80]})
            elif kind == "inject":
                if not (isinstance(g, ast.Starred) and isinstance(g.value, ast.Call)):
                    return ("inject-shape", {"at": here, "expected": e[1], "got": ast.unparse(g)[:80]})
                r = check_args(e[2], g.value, here + ".")
                if r:
                    return r
            elif kind == "nested":
                if not isinstance(g, ast.Call):
                    return ("nested-shape", {"at": here, "expected": e[1], "got": ast.unparse(g)[:80]})
                r = check_args(e[2], g, here + ".")
                if r:
                    return r
    return None


def ntokens(word_text: str) -> int:
    from ..common import tokens_outcome

    k, toks = tokens_outcome(word_text)
    if k != "tokens":
        return 0
    return sum(1 for t in toks if t.type.name in ("NAME", "NUMBER", "STRING", "OP", "ERRORTOKEN"))


def rebuild(case) -> xonsh.Cmd:
    def conv(c):
        words = [[(p[0], p[1], conv(p[2]) if isinstance(p[2], dict) else p[2]) for p in w] for w in c["words"]]
        return xonsh.Cmd(tuple(c["form"]), words, c["text"])

    return conv(case["cmd"])


def to_json(cmd):
    return {"form": list(cmd.form), "text": cmd.text, "words": [[[p[0], p[1], to_json(p[2]) if isinstance(p[2], xonsh.Cmd) else p[2]] for p in w] for w in cmd.words]}


SHRINK_FIELDS = ()


def check(rec, case):
    cmd = rebuild(case)
    text = cmd.text
    multi = any(sum(1 for _ in w) > 1 or ntokens(w[0][1]) >= 2 for w in cmd.words)
    labels = [f"form:{cmd.form[0]}", f"stream:{case.get('stream')}"]
    for w in cmd.words:
        for p in w:
            labels.append(f"piece:{p[0]}")
    rec.case(case, len(cmd.words) >= 2 and multi, labels=labels, key=text)
    o = outcome(text, "eval")
    if o.kind != "tree":
        cn = o.canon()
        rec.fail(dict(case, src=text), f"rejected:{cn[0]}:{o.etype}", {"outcome": [str(x)[:160] for x in cn], "src": text})
        return
    r = check_args(cmd, o.tree.body)
    if r:
        rec.fail(dict(case, src=text), r[0], dict(r[1], src=text))


def search(rec, ctx):
    def gen(rnd):
        cmd = xonsh.gen_cmd(rnd, newline_ws=rnd.random() < (0.3 if ctx.thorough else 0.2))
        check(rec, {"cmd": to_json(cmd), "stream": "model"})

    drive(st.randoms(use_true_random=False), gen, ctx.budget(24000, 300000), ctx.hseed("model"))

    # exhaustive short words as the middle of three words
    lens = (1, 2, 3) if ctx.thorough else (1, 2)
    n = 0
    for k in lens:
        for idx, t in enumerate(itertools.product(EXH_ALPHABET, repeat=k)):
            if idx % ctx.n != ctx.k:
                continue
            w = "".join(t)
            if not xonsh.word_ok(w):
                rec.exclude("reserved-word-or-at-paren")
                continue
            n += 1
            form = xonsh.SUBPROC_FORMS[idx % 4]
            cmd = xonsh.Cmd(form, [[("plain", "echo", None)], [("plain", w, None)], [("plain", "z", None)]], f"{form[0]}echo {w} z{form[1]}")
            check(rec, {"cmd": to_json(cmd), "stream": f"exhaustive-{k}"})
    rec.notes["exhaustive_words"] = f"all words of length <= {lens[-1]} over {len(EXH_ALPHABET)} characters as the middle of three words"
