"""C12 -- file and string entry points agree, in every locale/encoding environment."""

from __future__ import annotations

import json
import os
import re
import shutil
import subprocess
import sys
import tempfile

from hypothesis import strategies as st

from ..common import REPO, VERIF_DIR
from ..gen import corpus, mltok, mutate, xonsh
from ..gen.fstr import FGen
from ..gen.pysrc import PyGen
from ..hyp import drive
from .c11 import TARGETED, wrap

META = {
    "level": "exploration",
    "rule": (
        "inputs: file contents (UTF-8 bytes) -- G1 programs (ASCII and non-ASCII), corpus statements, xonsh seeds, C11's targeted syntax errors "
        "in generated layouts, G10 programs (triple-quoted tokens of 2..6 lines inside rejected constructs with a known range, f-string debug fields "
        "laid out over several lines, followed by errors whose diagnosis spans lines), G7 f-string statements, G4 mutations; a fifth of the inputs "
        "gets a character str.splitlines() would split at (FF, VT, FS/GS/RS, NEL, U+2028/9) as a line of its own or at a random position, another fifth a row holding nothing but blanks; version-gated statements (try/except*, type parameters, type aliases) with blank/comment rows inserted are given to both entry points with the same py_version 3.8..3.12 (their reports span whole statements); newline conventions LF / CRLF / lone CR / mixed, with and without final newline; each file is "
        "parsed by parse_file(path) and by parse_string(bytes.decode('utf-8-sig'), mode='exec') (every 16th file carries a UTF-8 signature) inside child interpreters started in 5 process "
        "environments {LC_ALL=C.UTF-8; LC_ALL=C; LC_ALL=C PYTHONCOERCECLOCALE=0 PYTHONUTF8=0 (ASCII preferred encoding); -X utf8=1; -X utf8=0}.  "
        "Oracle: inside each child the two canonical outcomes (tree dump with positions / exception class, message, line, column, end, text) are "
        "equal except for the file name; across children every outcome equals the UTF-8 child's.  A UnicodeDecodeError is an outcome like any "
        "other.  non-trivial = content is non-ASCII, or uses CR, or is rejected with a span covering more than one line; distinct by content."
    ),
    "assumptions": ["a Latin-1 locale cannot be instantiated in this sandbox (only C, C.utf8, POSIX exist); the ASCII configuration exercises the same platform-default decoding path"],
}
MAX_WORKERS = 8

ENVS = [
    ("utf8-locale", {"LC_ALL": "C.UTF-8"}, []),
    ("c-locale", {"LC_ALL": "C"}, []),
    ("ascii", {"LC_ALL": "C", "PYTHONCOERCECLOCALE": "0", "PYTHONUTF8": "0"}, []),
    ("x-utf8-1", {"LC_ALL": "C"}, ["-X", "utf8=1"]),
    ("x-utf8-0", {"LC_ALL": "C.UTF-8"}, ["-X", "utf8=0"]),
]

CHILD = r"""
import sys, json, pathlib, locale
sys.setrecursionlimit(20000)
sys.path.insert(0, sys.argv[1])
from vf.common import XonshParser, classify_exception, Outcome, watchdog, SoftTimeout
XP = XonshParser()
d = pathlib.Path(sys.argv[2])
out = {"_encoding": locale.getpreferredencoding(False), "_utf8_mode": sys.flags.utf8_mode}
def run(fn):
    try:
        with watchdog():
            return Outcome("tree", tree=fn())
    except SoftTimeout:
        return Outcome("hang")
    except BaseException as e:
        return classify_exception(e)
import re
for p in sorted(d.glob("*.xsh")):
    data = p.read_bytes()
    m = re.search(r"\.v3(\d+)\.", p.name)  # 'f0001.v310.xsh': both entry points are given py_version=(3, 10)
    kw = {"py_version": (3, int(m.group(1)))} if m else {}
    f = run(lambda: XP.parse_file(p, **kw))
    s = run(lambda: XP.parse_string(data.decode("utf-8-sig"), mode="exec", **kw))  # (a UTF-8 signature is not part of the text)
    fc, sc = f.canon(filename=False), s.canon(filename=False)
    out[p.name] = {"file": json.loads(json.dumps(fc, default=repr)), "string": json.loads(json.dumps(sc, default=repr))}
json.dump(out, open(sys.argv[3], "w"))
"""


def run_children(files: dict):
    """files: name -> bytes; returns {env: {name: {file, string}}}"""
    td = tempfile.mkdtemp(prefix="vf-c12-", dir=os.environ.get("VERIF_WORKER_TMP"))
    try:
        for name, data in files.items():
            with open(os.path.join(td, name), "wb") as f:
                f.write(data)
        child = os.path.join(td, "child.py")
        with open(child, "w") as f:
            f.write(CHILD)
        res = {}
        procs = []
        for env_name, env, flags in ENVS:
            e = {k: v for k, v in os.environ.items() if k not in ("LC_ALL", "LANG", "LC_CTYPE", "PYTHONUTF8", "PYTHONCOERCECLOCALE", "PYTHONIOENCODING")}
            e.update(env)
            e["VERIF_REPO"] = REPO
            outp = os.path.join(td, f"out-{env_name}.json")
            p = subprocess.Popen([sys.executable, *flags, child, VERIF_DIR, td, outp], env=e, stdout=subprocess.DEVNULL, stderr=subprocess.PIPE)
            procs.append((env_name, p, outp))
        for env_name, p, outp in procs:
            _, err = p.communicate(timeout=1800)
            if p.returncode != 0 or not os.path.exists(outp):
                raise RuntimeError(f"child {env_name} failed: {err.decode('utf-8', 'replace')[-400:]}")
            with open(outp) as f:
                res[env_name] = json.load(f)
        return res
    finally:
        shutil.rmtree(td, ignore_errors=True)


def judge(rec, name, content: str, res, stream):
    data_nonascii = not content.isascii()
    first = res["utf8-locale"][name]
    multi = first["string"][0] == "error" and isinstance(first["string"][3], int) and isinstance(first["string"][5], int) and first["string"][5] > first["string"][3]
    nt = data_nonascii or "\r" in content or multi
    case = {"src": content, "stream": stream}
    vm = re.search(r"\.v3\d+(?=\.)", name)
    if vm:
        case["v"] = vm.group(0)
    labels = [f"stream:{stream}", f"outcome:{first['string'][0]}"]
    if "\r\n" in content:
        labels.append("newline:crlf")
    if "\r" in content.replace("\r\n", ""):
        labels.append("newline:lone-cr")
    if data_nonascii:
        labels.append("non-ascii")
    rec.case(case, nt, labels=labels, key=content)
    for env_name, _, _ in ENVS:
        r = res[env_name][name]
        if r["file"] != r["string"]:
            rec.fail(case, f"file-vs-string:{r['string'][0]}->{r['file'][0]}:{(str(r['file'][1]) if r['file'][0] == 'raise' else '')}", {"env": env_name, "encoding": res[env_name]["_encoding"], "file": [str(x)[:160] for x in r["file"]], "string": [str(x)[:160] for x in r["string"]]})
            return
        if r["string"] != first["string"] or r["file"] != first["file"]:
            rec.fail(case, f"environment-changes-outcome:{env_name}", {"env": env_name, "encoding": res[env_name]["_encoding"], "here": [str(x)[:160] for x in r["file"]], "utf8": [str(x)[:160] for x in first["file"]]})
            return


def check(rec, case):
    content = case["src"]
    try:
        data = content.encode("utf-8")
    except UnicodeEncodeError:
        rec.exclude("not-encodable")
        return
    name = f"f0{case.get('v', '')}.xsh"
    res = run_children({name: data})
    judge(rec, name, content, res, case.get("stream", "?"))


def newline_variant(rnd, src: str) -> str:
    k = rnd.random()
    if k < 0.45:
        out = src
    elif k < 0.7:
        out = src.replace("\n", "\r\n")
    elif k < 0.8:
        out = src.replace("\n", "\r")
    else:
        out = "".join(ch if ch != "\n" else rnd.choice(["\n", "\r\n", "\r"]) for ch in src)
    if rnd.random() < 0.25:
        out = out.rstrip("\r\n")
    return out


def search(rec, ctx):
    seeds = xonsh.xonsh_seeds()
    crng = ctx.rng("corpus")
    corp = [s for _, s in corpus.sample_statements(crng, 10 if ctx.thorough else 3, per_file=20) if len(s) < 800]
    batch = []

    def gen(rnd):
        r = rnd.random()
        if r < 0.22:
            src, stream = PyGen(rnd, nonascii=rnd.random() < 0.5, max_depth=3).program(3), "g1"
        elif r < 0.34:
            # tokens spanning several physical lines, debug fields laid out over lines: the source text is looked up again
            src, _ = mltok.program(rnd)
            stream = "multi-line-tokens"
        elif r < 0.4:
            g = FGen(rnd, nonascii=rnd.random() < 0.4)
            src = "".join(g.statement() for _ in range(rnd.randrange(1, 4))) + (mltok.pick(rnd, mltok.LATER_ERRORS) if rnd.random() < 0.4 else "")
            stream = "fstrings"
        elif r < 0.5 and corp:
            src, stream = corp[rnd.randrange(len(corp))], "corpus"
        elif r < 0.6:
            src, stream = seeds[rnd.randrange(len(seeds))], "xonsh-seed"
        elif r < 0.8:
            src, _ = wrap(rnd, TARGETED[rnd.randrange(len(TARGETED))])
            stream = "targeted-error"
        else:
            base = corp[rnd.randrange(len(corp))] if corp and rnd.random() < 0.5 else PyGen(rnd, nonascii=True, max_depth=3).program(2)
            src, _ = mutate.mutate(rnd, base, xonsh=True, nasty=rnd.random() < 0.3)
            stream = "mutation"
        if rnd.random() < 0.15:
            src = src.replace("x", "é", 1).replace("'s'", "'日本'", 1)
        if rnd.random() < 0.2:
            # characters that str.splitlines() takes for line ends but the tokenizer, readline and CPython do not:
            # as a page-break line of their own between two lines, or anywhere in the text (strings, comments, code)
            sep = rnd.choice(["\x0c", "\x0c", "\x0b", "\x1c", "\x1d", "\x1e", "\x85", "\u2028", "\u2029"])
            nls = [i for i, ch in enumerate(src) if ch == "\n"]
            if nls and rnd.random() < 0.5:
                i = rnd.choice(nls) + 1
                src = src[:i] + sep + "\n" + src[i:]
            else:
                i = rnd.randrange(len(src) + 1)
                src = src[:i] + sep + src[i:]
            stream += "+separator-char"
        if rnd.random() < 0.2:
            # a row that holds nothing but blanks (indentation left behind on an empty line): it has one token at most,
            # and that token is all the string side ever learns about the row
            nls = [i for i, ch in enumerate(src) if ch == "\n"]
            if nls:
                i = rnd.choice(nls) + 1
                src = src[:i] + rnd.choice(["    ", "\t", "  \t ", " ", "        ", "  \x0c"]) + "\n" + src[i:]
                stream += "+blank-row"
        if rnd.random() < 0.04:
            # a NUL character, in code, in a string, in a comment: neither entry point may treat it specially on its own
            i = rnd.randrange(len(src) + 1)
            src = src[:i] + "\x00" + src[i:]
            stream += "+nul"
        src = newline_variant(rnd, src)
        try:
            src.encode("utf-8")
        except UnicodeEncodeError:
            return
        batch.append((src, stream))

    drive(st.randoms(use_true_random=False), gen, ctx.budget(1600, 24000), ctx.hseed("gen"))
    # spans and debug fields of more than a thousand physical lines (whatever is kept per line must be kept for all of them)
    LONG = ["f(\n" + " a,\n" * 1200 + ") = 1\n", "x = [\n" + " 1,\n" * 1500 + " 2 3]\n", "v = f\'\'\'{(\n" + " a,\n" * 1300 + ")=}\'\'\'\n", "w = b\'\'\'\n" + "line\n" * 1100 + "é\'\'\'\n",
            "k = 1\n" * 1050 + "foo(a, b for b in\n    c, d)\n", "s = f\'\'\'{x=}\n" + "t\n" * 1100 + "{y = }\'\'\'\nz = (1 2)\n"]
    for src in ctx.shard(LONG):
        batch.append((src, "long-span"))
    # a multi-line string whose last line repeats the end of the line before it, as the token an error is raised at
    for src in ctx.shard(["import \'\'\'\n\'\'\'\n", 'from """\n"""\nimport x\n', "def f(x, \'\'\'\n\'\'\'\n): pass\n", "import \'\'\'a\\\'\'\'\n\'\'\'\n", "x = 1\nimport f\'\'\'\n\'\'\'\ny = (2 3)\n",
                          "f(a, \\\n\\\n b) = 1\n", "v = rf\'\'\'{a + \\\n\\\n b =}\'\'\'\n", "g(1, \\\n   \\\n 2 3)\n"]):
        batch.append((src, "repeated-closing-line"))
    # syntax that only a later Python has, parsed for an earlier one by both entry points: the report spans the whole
    # statement, i.e. statement-level rows (blank rows with and without blanks, comment rows) that no other report covers
    GATED = ["try:\n  a\nexcept* B:\n  c\n", "try:\n    a\n\n    b\nexcept* (B, C) as e:\n    # why\n    c\nelse:\n    d\nfinally:\n    e\n", "def f[T](a):\n  x = 1\n  return x\n", "class A[T]:\n  x = 1\n\n  def m(self):\n    pass\n",
             "type X = (\n  int\n  | str\n)\n", "if c:\n  try:\n    a\n  except* B:\n    c\nz = 1\n", "async def g[**P]():\n  await h\n\n  return 1\n"]
    grng = ctx.rng("gated")
    gated = []
    for _ in range(60 if ctx.thorough else 8):
        src = grng.choice(GATED)
        for _ in range(grng.randrange(0, 4)):
            nls = [i for i, ch in enumerate(src) if ch == "\n"]
            i = grng.choice(nls) + 1
            src = src[:i] + grng.choice(["    ", "\t", "  ", " ", "", "  # c", "\x0c"]) + "\n" + src[i:]
        if grng.random() < 0.3:
            src = "k = 'é'\n" + src
        src = newline_variant(grng, src)
        gated.append((src, "version-gated-span", grng.choice([".v38", ".v310", ".v311", ".v312", ""])))
    # run the children on chunks
    batch = [(src, stream, "") for src, stream in batch] + gated
    for a in range(0, len(batch), 150):
        chunk = batch[a : a + 150]
        # (every 16th file is saved with a UTF-8 signature, as some editors do)
        files = {f"f{i:04d}{v}.xsh": (b"\xef\xbb\xbf" if (a + i) % 16 == 5 else b"") + src.encode("utf-8") for i, (src, _, v) in enumerate(chunk)}
        res = run_children(files)
        for i, (src, stream, v) in enumerate(chunk):
            judge(rec, f"f{i:04d}{v}.xsh", src, res, stream + v)
        rec.notes["preferred_encodings"] = {e: res[e]["_encoding"] + ("/utf8-mode" if res[e]["_utf8_mode"] else "") for e in res}
