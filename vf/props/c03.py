"""C03 -- totality: every input terminates with a tree or a SyntaxError/TokenError."""

from __future__ import annotations

import ast
import itertools
import json
import os
import pathlib
import subprocess
import sys
import tempfile

from hypothesis import strategies as st

from .. import known
from ..common import SoftTimeout, XonshParser, classify_exception, repo_modules, watchdog
from ..gen import corpus, mutate, soup, xonsh
from ..gen.pysrc import PyGen
from ..hyp import drive

META = {
    "level": "exploration",
    "rule": (
        "inputs: any str -- G9 character soup with dictionary fragments (Hypothesis), atheris/libFuzzer campaigns on UTF-8 bytes "
        "(empty and seeded corpora, dictionary), G4 token/line mutations, every token-aligned prefix and random character prefixes "
        "of Python and xonsh seeds (incl. nasty characters), G1 programs.  Entry points: generate_tokens exhausted, "
        "parse_string exec and eval, parse_file on the same bytes (a fraction of cases); version-gated programs and their mutations under "
        "py_version 3.8..3.13 and verbose; numeric literals beyond the int digit limit / float range in ten embeddings.  Oracle: terminates under the watchdog and "
        "the outcome is a Module/Expression (never None), SyntaxError (incl. subclasses) or TokenError; anything else is bucketed by "
        "(entry point, exception type, innermost peg_parser frame).  non-trivial = tokenizer produced >= 3 significant tokens "
        "before the outcome; distinct by text."
    ),
    "assumptions": [
        "RecursionError is only a violation under the harness limit (20000 frames, 1 GB stack) for inputs < 300 tokens; the default-limit behaviour is finding D22",
        "a soft 10 s timeout counts only if a fresh interpreter also exceeds 50 s on the same input",
    ],
}

SIG_TYPES = ("NAME", "NUMBER", "STRING", "OP", "FSTRING_START", "FSTRING_MIDDLE", "FSTRING_END", "SEARCH_PATH", "ERRORTOKEN")


_hangs = [0]


class TooManyHangs(Exception):
    pass


def run_entry(fn):
    """('ok', value) | ('allowed', name) | ('bad', signature, detail)"""
    T = repo_modules()["T"]
    try:
        # after a few timeouts in this worker the limit drops to 2 s (inputs are tiny: still 1000x slack), so that a
        # tree that hangs on a whole class of inputs does not turn the search into hours of waiting
        with watchdog(2.0 if _hangs[0] >= 3 else None):
            v = fn()
        return ("ok", v)
    except SoftTimeout:
        _hangs[0] += 1
        return ("bad", "hang", {})
    except (SyntaxError, T.TokenError) as e:
        return ("allowed", type(e).__name__)
    except BaseException as e:  # noqa: BLE001
        if isinstance(e, (KeyboardInterrupt, SystemExit)):
            raise
        o = classify_exception(e)
        return ("bad", f"{o.etype}@{o.site}", {"exception": repr(e)[:300]})


_tmpdir = None


def tmp_path():
    global _tmpdir
    if _tmpdir is None:
        _tmpdir = tempfile.mkdtemp(prefix="vf-c03-", dir=os.environ.get("VERIF_WORKER_TMP"))
    return pathlib.Path(_tmpdir) / "input.xsh"


def check(rec, case):
    if _hangs[0] >= 25 and not case.get("force"):
        raise TooManyHangs()
    src = case["src"]
    stream = case.get("stream", "?")
    T = repo_modules()["T"]
    XP = XonshParser()
    nsig = [0]

    def tok():
        nsig[0] = 0
        for t in T.generate_tokens(src):
            if t.type.name in SIG_TYPES:
                nsig[0] += 1
        return True

    results = {}
    results["tokenize"] = run_entry(tok)
    if case.get("default_limit"):
        # what a caller sees without the harness' raised recursion limit (finding D22)
        old_limit = sys.getrecursionlimit()
        sys.setrecursionlimit(1000)
        try:
            results["exec"] = run_entry(lambda: XP.parse_string(src, mode="exec"))
        finally:
            sys.setrecursionlimit(old_limit)
    else:
        results["exec"] = run_entry(lambda: XP.parse_string(src, mode="exec"))
    if results["exec"][0] == "bad" and results["exec"][1] == "hang":
        results.pop("tokenize")  # do not spend two more timeouts on the same input
    else:
        results["eval"] = run_entry(lambda: XP.parse_string(src, mode="eval"))
    if case.get("options"):
        # the documented options of the entry points: every value of py_version the grammar distinguishes, with and
        # without verbose (trace output discarded) -- totality is claimed for the entry points, not for their defaults
        import contextlib
        import io

        class _Discard(io.TextIOBase):
            def write(self, s):
                return len(s)

        for v in ((3, 8), (3, 10), (3, 11), (3, 12), (3, 13)):
            results[f"exec-py{v[0]}.{v[1]}"] = run_entry(lambda v=v: XP.parse_string(src, mode="exec", py_version=v))
        if len(src) < 300:
            with contextlib.redirect_stdout(_Discard()):
                results["exec-verbose"] = run_entry(lambda: XP.parse_string(src, mode="exec", verbose=True))
                results["exec-verbose-py3.8"] = run_entry(lambda: XP.parse_string(src, mode="exec", verbose=True, py_version=(3, 8)))
    if "eval" in results and (case.get("file") or (len(src) % 5 == 0 and "\x00" not in src)):
        try:
            data = src.encode("utf-8")
        except UnicodeEncodeError:
            data = None
        if data is not None:
            p = tmp_path()
            p.write_bytes(data)
            results["file"] = run_entry(lambda: XP.parse_file(p))
    labels = [f"stream:{stream}"]
    for ep, r in results.items():
        labels.append(f"{ep}:{r[0] if r[0] != 'allowed' else r[1]}")
    rec.case(case, nsig[0] >= 3, labels=labels, key=src)
    for ep, r in results.items():
        if r[0] == "bad":
            sig = r[1]
            # (an input cannot hold more tokens than characters: a larger count means the tokenizer ran away, which is no resource limit)
            if sig.startswith("RecursionError") and 300 <= nsig[0] <= len(src) and not case.get("default_limit"):
                rec.inconclusive["RecursionError on >=300 tokens (resource limit)"] += 1
                continue
            rec.fail(case, "hang" if sig == "hang" else sig, dict(r[2], entry_point=ep))
        elif r[0] == "ok" and ep != "tokenize":
            want = ast.Expression if ep == "eval" else ast.Module
            if not isinstance(r[1], want):
                rec.fail(case, f"returned-{type(r[1]).__name__}", {"entry_point": ep})


def atheris_campaign(rec, ctx, runs, max_len):
    from ..fuzz import campaign

    campaign(rec, ctx, "C03", runs, max_len)


def search(rec, ctx):
    try:
        _search(rec, ctx)
    except TooManyHangs:
        rec.notes["search_cut_short"] = "25 soft timeouts in one worker: the remaining streams were skipped (the property is violated anyway)"


def _search(rec, ctx):
    seeds = xonsh.xonsh_seeds()
    crng = ctx.rng("corpus")
    corp = [s for _, s in corpus.sample_statements(crng, 30 if ctx.thorough else 3, per_file=40 if ctx.thorough else 20) if len(s) < 1500]

    drive(soup.soup, lambda s: check(rec, {"src": s, "stream": "soup"}), ctx.budget(12000, 150000), ctx.hseed("soup"))

    def mut(rnd):
        pool = seeds if rnd.random() < 0.5 or not corp else corp
        base = pool[rnd.randrange(len(pool))]
        src, op = mutate.mutate(rnd, base, xonsh=True, nasty=True)
        check(rec, {"src": src, "stream": "mutation"})

    drive(st.randoms(use_true_random=False), mut, ctx.budget(8000, 80000), ctx.hseed("mut"))

    def g1(rnd):
        g = PyGen(rnd, nonascii=rnd.random() < 0.3)
        src = g.program(3)
        src, op = mutate.mutate(rnd, src, xonsh=True, nasty=True) if rnd.random() < 0.7 else (src, "none")
        check(rec, {"src": src, "stream": "g1-mutated"})

    drive(st.randoms(use_true_random=False), g1, ctx.budget(3000, 30000), ctx.hseed("g1"))

    # construct-aware stream: short generated xonsh constructs / command lines / macros with 1-3 token edits
    # (dense mutations inside the construct, where the hand-written builders of subheader.py take over)
    ATOMS = ["'s'", "[1]", "None", "(b, c)", "1", "{}", "...", "f'{x}'", "-1", "lambda: 0", "$X", "$(ls)", "`a`", "p'q'", "x?", "@(y)", "![z]"]

    def construct(rnd):
        r = rnd.random()
        if r < 0.45:
            text = xonsh.sugar(rnd).text
        elif r < 0.6:
            text = xonsh.gen_cmd(rnd).text
        elif r < 0.75:
            c = xonsh.call_macro_case(rnd)
            text = c["macro"]
        elif r < 0.85:
            text = xonsh.proc_macro_case(rnd)["text"]
        else:
            text = xonsh.with_macro_case(rnd)["src"]
        vocab = mutate.PY_VOCAB + mutate.XONSH_VOCAB + ATOMS + ATOMS
        for _ in range(rnd.randint(1, 3)):
            text, _op = mutate.mutate_tokens(rnd, text, vocab, 1)
        ctxs = ["{}", "{}\n", "x = {}\n", "f({}, 1)\n", "if {}:\n    pass\n", "[{} for i in j]\n", "{}; y = 2\n"]
        check(rec, {"src": ctxs[rnd.randrange(len(ctxs))].format(text) if "{" not in text and "}" not in text else text, "stream": "construct-mutation"})

    drive(st.randoms(use_true_random=False), construct, ctx.budget(16000, 150000), ctx.hseed("construct"))

    # every ordered pair / triple of adjacent string-literal kinds (str, bytes, f-string with text at either end, raw, u,
    # triple-quoted, path literals): the hand-written concatenation code must answer each with a tree or a SyntaxError
    from ..gen import lex

    for i, s in enumerate(ctx.shard(list(lex.string_concat_matrix(xonsh=False)) + list(lex.string_concat_matrix(xonsh=True)))):
        check(rec, {"src": ("x = " + s + "\n") if i % 2 else ("f(" + s + ")"), "stream": "string-concat-matrix"})

    # the specialised diagnostics (invalid_* rules, second pass) are hand-written code paths of their own: C11's targeted
    # errors and C02's small valid statements, each with every single-token deletion and with each of a dozen
    # punctuation tokens inserted at every position
    from .c02 import SMALL_VALID
    from .c11 import TARGETED

    PUNCT = ["*", "**", ",", "=", "(", ")", ":", "[", "]", ".", "if", "for", "in", "lambda", "not", "as"]
    for base in ctx.shard([t for t in TARGETED if len(t) < 200] + SMALL_VALID):
        toks = mutate.lex(base)
        check(rec, {"src": base, "stream": "diagnostic-neighbourhood"})
        for i, t in enumerate(toks):
            if not t.strip():
                continue
            check(rec, {"src": "".join(toks[:i] + toks[i + 1 :]), "stream": "diagnostic-neighbourhood"})
            for v in PUNCT:
                check(rec, {"src": "".join(toks[:i] + [v, " "] + toks[i:]), "stream": "diagnostic-neighbourhood"})

    # generated f-string statements (nesting, specs with escapes and quotes, debug fields, continuation lines) and their
    # single-edit mutations: the f-string scanners are hand-written loops over characters, each of which has to advance
    from ..gen.fstr import FGen

    def fstrings(rnd):
        g = FGen(rnd, nonascii=rnd.random() < 0.15)
        src = g.statement()
        if rnd.random() < 0.5:
            src, _ = mutate.mutate(rnd, src, xonsh=rnd.random() < 0.2, nasty=rnd.random() < 0.2)
        check(rec, {"src": src, "stream": "fstring-statements"})

    drive(st.randoms(use_true_random=False), fstrings, ctx.budget(5000, 60000), ctx.hseed("fstrings"))
    from ..gen.fstr import text_soup

    drive(st.randoms(use_true_random=False), lambda rnd: check(rec, {"src": text_soup(rnd), "stream": "fstring-text-soup"}), ctx.budget(6000, 80000), ctx.hseed("fsoup"))

    # every sequence of up to three clauses after 'try:' (and a sample of four): most are rejected, each by one of the
    # hand-written invalid_try_stmt / invalid_except_stmt alternatives, some only for an earlier py_version
    TRY_CLAUSES = ["except:", "except E:", "except E as e:", "except* E:", "except* (A, B) as g:", "except*:", "except A, B:", "except* A, B:", "else:", "finally:", "except E as e.f:", "except E as (a, b):"]
    trng = ctx.rng("try-clauses")
    tseqs = [s for n in (1, 2, 3) for s in itertools.product(TRY_CLAUSES, repeat=n)] + [tuple(trng.choice(TRY_CLAUSES) for _ in range(4)) for _ in range(2000 if ctx.thorough else 300)]
    for j, seq in enumerate(ctx.shard(tseqs)):
        body = "\n    b\n" if j % 3 else " b\n"
        check(rec, {"src": "try:\n    a\n" + "".join(c + body for c in seq), "stream": "try-clause-sequences", "options": j % 4 == 0})

    # deep nests whose innermost level is closed by the wrong bracket (or not at all): rejected, and quickly
    OPEN = [("$(a ", ")"), ("![a ", "]"), ("$[a ", "]"), ("!(a ", ")"), ("@$(a ", ")"), ("(", ")"), ("[", "]"), ("{", "}"), ("f(", ")"), ("$(echo @(", "))"), ("f!(", ")"), ("${", "}"), ("(a, ", ")")]
    for o, c in ctx.shard(OPEN):
        for d in (12, 18, 24):
            for wrong in ("]", ")", "}", "", " 1 1", " ="):
                if wrong == c[:1]:
                    continue
                check(rec, {"src": ("x = " if o[0] in "([{f" else "") + o * d + "a" + wrong + c * d + "\n", "stream": "deep-nest-wrong-closer"})

    # conversion names of f-string fields: every string over {s, r, a, z} up to length 3, plus a few words

    for name in ctx.shard(["".join(t) for n in (1, 2, 3) for t in itertools.product("sraz", repeat=n)] + ["repr", "R", "1", "_", "é", "if"]):
        for tmpl in ("f'{x!N}'", "f'{x!N:>4}'", "f'{x=!N}'", "f'{x:{y!N}}'", "f'''{x!N\n}'''", "f'{x! N}'"):
            check(rec, {"src": tmpl.replace("N", name), "stream": "fstring-conversion-names"})

    # version-gated syntax (valid, broken and mutated) under every py_version and verbose
    from .c15 import GATED

    def gated(rnd):
        base = GATED[rnd.randrange(len(GATED))]
        r = rnd.random()
        if r < 0.4:
            src = base
        elif r < 0.8:
            src, _ = mutate.mutate(rnd, base, xonsh=rnd.random() < 0.3, nasty=rnd.random() < 0.2)
        else:
            src = seeds[rnd.randrange(len(seeds))][:200] + "\n" + base
        check(rec, {"src": src, "stream": "gated-syntax-with-options", "options": True})

    drive(st.randoms(use_true_random=False), gated, ctx.budget(1200, 10000), ctx.hseed("gated"))

    # numeric literals at and beyond the limits of their evaluation (int digit limit, float overflow, huge exponents)
    BIG = ["9" * 4300, "9" * 4301, "0" * 4301, "7" * 20000, "1_" * 2200 + "1", "0x" + "f" * 5000, "0b" + "1" * 20000, "0o" + "7" * 6000, "1e99999", "1" * 400 + ".5e-" + "9" * 30, "9" * 4301 + "j",
           "9" * 4301 + ".0", "1" + "0" * 5000 + "e-5000", "0." + "0" * 5000 + "1", "-" + "9" * 4301, "1e" + "9" * 4301]
    for i, lit in enumerate(ctx.shard(BIG)):
        for tmpl in ("x = {n}\n", "{n}", "f({n})[{n}]\n", "match v:\n  case {n}: pass\n", "match v:\n  case -{n}+1j: pass\n", "def f(a={n}): pass\n", "$(echo {n})\n", "x = {n}if y else z\n", "f!({n})\n", "f'{{x:{n}}}'\n"):
            check(rec, {"src": tmpl.replace("{n}", lit), "stream": "numeric-limits", "options": i % 4 == 0})

    for s in ctx.shard(seeds):
        check(rec, {"src": s, "stream": "xonsh-seed", "file": True})
        for pre in mutate.token_prefixes(s):
            check(rec, {"src": pre, "stream": "xonsh-prefix"})
    if ctx.thorough:
        for s in corp:
            for pre in mutate.token_prefixes(s):
                check(rec, {"src": pre, "stream": "corpus-prefix"})

    # nesting at the interpreter's default recursion limit (D22): depth < 20 must work
    for o, c in ctx.shard([("(", ")"), ("[", "]"), ("{", "}"), ("f(", ")"), ("a[", "]"), ("$(echo @(", "))"), ("-", ""), ("not ", ""), ("lambda: ", "")]):
        for n in (5, 10, 15, 19, 25, 30, 40, 50):
            check(rec, {"src": "x = " + o * n + "a" + c * n + "\n", "stream": "nesting-default-limit", "default_limit": True, "depth": n})

    if ctx.thorough:
        atheris_campaign(rec, ctx, 200000, 96)
    else:
        atheris_campaign(rec, ctx, 12000, 48)


@known.matcher
def recursion_at_default_limit(case, signature, detail):
    """D22: RecursionError under the interpreter's default recursion limit for nesting >= 20"""
    return bool(case.get("default_limit")) and case.get("depth", 0) >= 20 and signature.startswith("RecursionError")
