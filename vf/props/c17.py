"""C17 -- the parser generator implements PEG semantics for every grammar."""

from __future__ import annotations

import io
import itertools
import re
import sys
import tokenize as pytok

from hypothesis import strategies as st

from .. import known
from ..common import REPO, SoftTimeout, repo_modules, watchdog
from ..gen import peg
from ..hyp import drive

META = {
    "level": "exploration",
    "rule": (
        "grammars: Hypothesis-drawn small grammars (start + 1-5 rules) over tokens 'a' 'b' 'c' (hard keywords), \"s\" (soft keyword), NAME, "
        "NUMBER, ',', '(', ')' using ordered choice, sequences, optional, * and +, gathers, positive/negative lookahead, cut, forced tokens, "
        "groups (incl. the same group shared by several rules, single-alternative groups), named items with tuple-building actions, (memo) "
        "flags, rules whose alternatives are all single items (inlined through seq_alts), direct and indirect left recursion; well-formed by "
        "construction (no falsy-succeeding alternative, no repetition of a nullable item, left recursion only in first position).  Pipeline "
        "under test: grammar text -> pegen.grammar_parser (shipped metagrammar parser) -> tasks.generator.XonshParserGenerator -> exec -> run on "
        "peg_parser.tokenizer.Tokenizer.  Three fixed grammars (left recursion over (memo) rules; gather/optional/repetition; cut and lookahead "
        "over (memo) rules) are also run on programs of 90 000 tokens (thorough: up to 200 000) whose value must be the list of the values the "
        "statements have alone.  inputs: ALL token strings up to a length bound over the grammar's own alphabet (+1 unused symbol).  "
        "Oracle: an independent ~200-line PEG interpreter over my own grammar AST (ordered choice, greedy repetition, cut, forced, keyword/NAME "
        "exclusion, seed-growing left recursion at the SCC leader); compared per (grammar, input): success/failure/forced-error, end position, "
        "value modulo falsy-equivalence.  evaluations = (grammar, input) pairs; non-trivial = a grammar using >=3 distinct operators on which "
        ">=1 input succeeds after a backtrack; distinct by grammar text."
    ),
    "assumptions": ["values are compared modulo falsy-equivalence (None, [], () are one value: in pegen's convention a falsy value is 'no match')", "grammars the generator rejects with GrammarError are discarded and counted"],
}


# ---------------------------------------------------------------------------------------------
# pipeline under test

_mods = {}


def pipeline():
    if not _mods:
        repo_modules()
        if REPO not in sys.path:
            sys.path.insert(0, REPO)
        from pegen.grammar_parser import GeneratedParser as GrammarParser
        from pegen.tokenizer import Tokenizer as PegenTokenizer
        from tasks.generator import XonshParserGenerator

        _mods.update(GrammarParser=GrammarParser, PegenTokenizer=PegenTokenizer, Gen=XonshParserGenerator)
    return _mods


def build(gtext: str):
    m = pipeline()
    tok = m["PegenTokenizer"](pytok.generate_tokens(io.StringIO(gtext).readline))
    p = m["GrammarParser"](tok)
    g = p.start()
    if not g:
        raise p.make_syntax_error("<g>")
    out = io.StringIO()
    gen = m["Gen"](g, out)
    gen.generate("<g>")
    ns = {}
    code = out.getvalue()
    exec(compile(code, "<gen>", "exec"), ns)
    return ns["TP"], code


def mk_tokens(words):
    T = repo_modules()["T"]
    out, col = [], 0
    line = " ".join(words)
    for w in words:
        typ = T.Token.NUMBER if w.isdigit() else T.Token.NAME if re.match(r"[A-Za-z_]\w*$", w) else T.Token.OP
        out.append(T.TokenInfo(typ, w, (1, col), (1, col + len(w)), line))
        col += len(w) + 1
    out.append(T.TokenInfo(T.Token.ENDMARKER, "", (1, col), (1, col), line))
    return out


def norm(v):
    T = repo_modules()["T"]
    if isinstance(v, T.TokenInfo):
        return ("T", v.string)
    if not v:
        return None
    if isinstance(v, (list, tuple)):
        return (type(v).__name__,) + tuple(norm(x) for x in v)
    return v


# ---------------------------------------------------------------------------------------------
# reference interpreter


class Fail(Exception):
    pass


class Forced(Exception):
    pass


class Ref:
    def __init__(self, rules, toks):
        self.T = repo_modules()["T"]
        self.rules = {n: (m, a) for n, m, a in rules}
        self.toks = toks
        self.keywords = set()
        self._collect(rules)
        self.leaders = self._leaders(rules)
        self.lr_cache = {}
        self.backtracks = 0

    def _collect(self, rules):
        def walk(it):
            if it[0] in ("lit", "forced"):
                v = it[1]
                if v[0] == "'" and re.match(r"[A-Za-z_]\w*$", v[1:-1]):
                    self.keywords.add(v[1:-1])
            if it[0] == "grp":
                for items, _ in it[1]:
                    for _, i in items:
                        walk(i)
            elif it[0] in ("opt", "rep0", "rep1", "pos", "neg"):
                walk(it[1])
            elif it[0] == "gather":
                walk(it[1])
                walk(it[2])

        for _, _, alts in rules:
            for items, _ in alts:
                for _, i in items:
                    walk(i)

    def _nullable_item(self, it):
        k = it[0]
        if k in ("opt", "rep0", "forced", "pos", "neg", "cut"):
            return True
        if k == "grp":
            return any(all(self._nullable_item(i) for _, i in items) for items, _ in it[1])
        return False

    def _first(self, it):
        k = it[0]
        if k == "ref":
            return {it[1]}
        if k == "grp":
            s = set()
            for items, _ in it[1]:
                s |= self._first_alt(items)
            return s
        if k in ("opt", "rep0", "rep1"):
            return self._first(it[1])
        if k == "gather":
            return self._first(it[2])
        return set()

    def _first_alt(self, items):
        s = set()
        for _, i in items:
            s |= self._first(i)
            if not self._nullable_item(i):
                break
        return s

    def _leaders(self, rules):
        graph = {n: set() for n, _, _ in rules}
        for n, _, alts in rules:
            for items, _ in alts:
                graph[n] |= self._first_alt(items)

        def reach(a):
            seen, stack = set(), [a]
            while stack:
                x = stack.pop()
                for y in graph.get(x, ()):
                    if y not in seen:
                        seen.add(y)
                        stack.append(y)
            return seen

        R = {n: reach(n) for n in graph}
        leaders, done = {}, set()
        for n in graph:
            if n in done or n not in R[n]:
                continue
            scc = {m for m in graph if m in R[n] and n in R[m]}
            done |= scc
            cands = set(scc)

            def cycles(start, scc=scc):
                res = []

                def dfs(node, path):
                    for y in graph[node]:
                        if y not in scc:
                            continue
                        if y == start:
                            res.append(list(path))
                        elif y not in path:
                            dfs(y, path + [y])

                dfs(start, [start])
                return res

            for s0 in scc:
                for c in cycles(s0):
                    cands -= scc - set(c)
            for m in scc:
                leaders[m] = False
            if not cands:
                raise ValueError("no leader")
            leaders[min(cands)] = True
        return leaders

    def tok(self, pos):
        return self.toks[pos] if pos < len(self.toks) else self.toks[-1]

    def item(self, it, pos):
        k = it[0]
        T = self.T
        if k == "lit":
            t = self.tok(pos)
            if t.string == it[1][1:-1] and pos < len(self.toks):
                return t, pos + 1
            raise Fail
        if k == "tok":
            t = self.tok(pos)
            if pos >= len(self.toks):
                raise Fail
            if it[1] == "NAME":
                if t.type == T.Token.NAME and t.string not in self.keywords:
                    return t, pos + 1
                raise Fail
            if t.type == T.Token["ENDMARKER" if it[1] == "$" else it[1]]:  # '$' is the notation's shorthand for ENDMARKER
                return t, pos + 1
            raise Fail
        if k == "ref":
            return self.rule(it[1], pos)
        if k == "grp":
            return self.alts(it[1], pos)
        if k == "opt":
            try:
                return self.item(it[1], pos)
            except Fail:
                return None, pos
        if k in ("rep0", "rep1"):
            vals = []
            while True:
                try:
                    v, p2 = self.item(it[1], pos)
                except Fail:
                    break
                if p2 == pos:
                    break
                vals.append(v)
                pos = p2
            if k == "rep1" and not vals:
                raise Fail
            return vals, pos
        if k == "gather":
            v, pos = self.item(it[2], pos)
            vals = [v]
            while True:
                try:
                    _, p2 = self.item(it[1], pos)
                    v, p3 = self.item(it[2], p2)
                except Fail:
                    break
                vals.append(v)
                pos = p3
            return vals, pos
        if k == "pos":
            v, _ = self.item(it[1], pos)
            return v, pos
        if k == "neg":
            try:
                self.item(it[1], pos)
            except Fail:
                return True, pos
            raise Fail
        if k == "forced":
            t = self.tok(pos)
            if t.string == it[1][1:-1] and pos < len(self.toks):
                return t, pos + 1
            raise Forced
        raise AssertionError(k)

    def alts(self, alts, pos):
        consumed_then_failed = False
        for items, action in alts:
            env, vals, p, cut = {}, [], pos, False
            try:
                for name, it in items:
                    if it[0] == "cut":
                        cut = True
                        continue
                    v, p = self.item(it, p)
                    if it[0] in ("pos", "neg"):
                        continue
                    vals.append(v)
                    if name:
                        env[name] = v
                if action:
                    val = eval(action, {}, dict(env))  # noqa: S307 - actions are generated tuple builders
                else:
                    val = vals[0] if len(vals) == 1 else vals
                if consumed_then_failed:
                    self.backtracks += 1
                return val, p
            except Fail:
                if p > pos:
                    consumed_then_failed = True
                if cut:
                    raise Fail from None
        raise Fail

    def rule(self, name, pos):
        memo, alts = self.rules[name]
        if self.leaders.get(name):
            key = (name, pos)
            if key in self.lr_cache:
                r = self.lr_cache[key]
                if r is None:
                    raise Fail
                return r
            self.lr_cache[key] = None
            last = None
            while True:
                try:
                    v, p = self.alts(alts, pos)
                except Fail:
                    break
                if last is not None and p <= last[1]:
                    break
                if last is None and p <= pos:
                    break
                last = (v, p)
                self.lr_cache[key] = last
            if last is None:
                raise Fail
            return last
        return self.alts(alts, pos)


def run_ref(rules, words):
    toks = mk_tokens(words)
    ref = Ref(rules, toks)
    try:
        v, p = ref.rule("start", 0)
        return ("ok", norm(v), p), ref.backtracks
    except Fail:
        return ("fail",), ref.backtracks
    except Forced:
        return ("forced",), ref.backtracks


def run_gen(TP, words):
    TZ = repo_modules()["TZ"]
    toks = mk_tokens(words)
    tz = TZ.Tokenizer(iter(toks))
    p = TP(tz)
    try:
        v = p.start()
    except SyntaxError:
        return ("forced",)
    if not v:
        return ("fail",)
    return ("ok", norm(v), p._mark())


# ---------------------------------------------------------------------------------------------

_build_cache = {}


def alphabet_of(text):
    used = []
    for w, probe in (("ab", "'ab'"), ("ab", '"ab"'), ("a", "'a'"), ("b", "'b'"), ("c", "'c'"), ("d", "'d'"), (",", "','"), ("(", "'('"), (")", "')'"), ("s", '"s"')):
        if probe in text:
            used.append(w)
    if "NAME" in text:
        used.append("n")
    if "NUMBER" in text:
        used.append("1")
    for extra in ("n", "a", "1"):
        if extra not in used:
            used.append(extra)
            break
    return used


def inputs_for(alph, budget):
    out = []
    for n in range(0, 8):
        if len(alph) ** n + len(out) > budget:
            break
        out.extend(list(w) for w in itertools.product(alph, repeat=n))
    return out


def check(rec, case):
    """case: {'rules': ..., 'words': [...]} (one input) -- used for replays and shrinking"""
    if case.get("kind") == "long":
        return check_long(rec, case)
    rules = case["rules"]
    text = peg.render(rules)
    r = compare_one(rules, text, case["words"])
    rec.case(case, False, key=(text, tuple(case["words"])))
    if r is not None:
        rec.fail(case, r[0], r[1])


def get_parser(text):
    if text not in _build_cache:
        if len(_build_cache) > 50:
            _build_cache.clear()
        try:
            _build_cache[text] = ("ok", build(text)[0])
        except RecursionError:
            _build_cache[text] = ("recursion", None)
        except Exception as e:  # noqa: BLE001
            name = type(e).__name__
            # pegen documents that it cannot handle an SCC without a rule on every cycle: such a grammar is rejected, not mis-compiled
            rejected = name == "GrammarError" or (name == "ValueError" and "no leadership candidate" in str(e))
            _build_cache[text] = ("grammar-error" if rejected else "build-fail", f"{name}: {str(e)[:200]}")
    return _build_cache[text]


def compare_one(rules, text, words):
    status, TP = get_parser(text)
    if status != "ok":
        if status == "build-fail":
            return (f"generator-crash:{TP.split(':')[0]}", {"error": TP, "grammar": text})
        return None
    try:
        a, _ = run_ref(rules, words)
    except RecursionError:
        return None
    try:
        with watchdog(5):  # (inputs are a handful of tokens: milliseconds)
            b = run_gen(TP, words)
    except SoftTimeout:
        b = ("hang",)
    except RecursionError:
        b = ("gen-recursion",)
    except Exception as e:  # noqa: BLE001
        b = ("gen-exception", type(e).__name__, str(e)[:80])
    if a != b:
        kind = f"{a[0]}->{b[0]}" if a[0] != b[0] else ("end-position" if a[2] != b[2] else "value")
        return (f"mismatch:{kind}", {"input": words, "reference": repr(a)[:300], "generated": repr(b)[:300], "grammar": text})
    return None


def uninlined(rules):
    """metamorphic variant: no alternative is inlinable (every single-item alternative without action gets an
    identity action, so neither seq_alts inlining nor the single-item shortcuts apply); same language, same values"""
    import copy

    def fix_alts(alts):
        for a in alts:
            items, action = a
            for _, it in items:
                fix_item(it)
            nameable = [x for x in items if x[1][0] not in ("pos", "neg", "cut", "forced")]
            if action is None and len(nameable) == 1 and len(items) == 1:
                nameable[0][0] = "zz"
                a[1] = "zz"

    def fix_item(it):
        if it[0] == "grp":
            fix_alts(it[1])
        elif it[0] in ("opt", "rep0", "rep1", "pos", "neg"):
            fix_item(it[1])
        elif it[0] == "gather":
            fix_item(it[1])
            fix_item(it[2])

    out = copy.deepcopy(rules)
    for _, _, alts in out:
        fix_alts(alts)
    return out


def check_grammar(rec, rules, feats, budget, stream):
    text = peg.render(rules)
    status, TP = get_parser(text)
    if status == "grammar-error":
        rec.exclude("generator-rejects-with-GrammarError")
        return
    if status == "recursion":
        rec.exclude("build-recursion")
        return
    if status == "build-fail":
        rec.case({"rules": rules, "words": []}, False, key=text)
        rec.fail({"rules": rules, "words": [], "features": sorted(feats)}, f"generator-crash:{TP.split(':')[0]}", {"error": TP, "grammar": text})
        return
    try:
        Ref(rules, mk_tokens([]))
    except ValueError:
        rec.exclude("no-left-recursion-leader")
        return
    alph = alphabet_of(text)
    inputs = inputs_for(alph, budget)
    backtracked = False
    accepted = 0
    first_bad = None
    for words in inputs:
        try:
            a, bt = run_ref(rules, words)
        except RecursionError:
            rec.inconclusive["reference-recursion"] += 1
            continue
        if a[0] == "ok":
            accepted += 1
            if bt:
                backtracked = True
        r = compare_one(rules, text, words)
        rec.evaluations += 1
        if r is not None and first_bad is None:
            first_bad = (words, r)
        if r is not None and r[0].endswith("->hang"):
            break  # (a generated parser that loops does so on most inputs: one report per grammar, not one watchdog period per input)
    # metamorphic side-check: the generator's size optimisations never change behaviour
    if first_bad is None:
        alt_rules = uninlined(rules)
        alt_text = peg.render(alt_rules)
        if alt_text != text:
            st2, TP2 = get_parser(alt_text)
            status1, TP1 = get_parser(text)
            if st2 == "ok" and status1 == "ok":
                rec.count("metamorphic-pairs")
                for words in inputs[: min(len(inputs), 3000)]:
                    try:
                        with watchdog(20):
                            r1, r2 = run_gen(TP1, words), run_gen(TP2, words)
                    except (SoftTimeout, RecursionError):
                        continue
                    except Exception as e:  # noqa: BLE001
                        r1, r2 = ("exc", type(e).__name__), None
                    rec.evaluations += 1
                    if r1 != r2:
                        first_bad = (words, ("metamorphic:inlined-vs-uninlined", {"input": words, "inlined": repr(r1)[:300], "uninlined": repr(r2)[:300], "grammar": text, "uninlined_grammar": alt_text}))
                        break
            elif st2 == "build-fail":
                first_bad = ([], ("generator-crash-on-uninlined-variant", {"error": TP2, "grammar": alt_text}))
    ops = peg.operators(rules)
    labels = [f"op:{o}" for o in sorted(ops)] + [f"feature:{f}" for f in sorted(feats)] + [f"stream:{stream}"]
    if accepted == 0:
        labels.append("grammar-never-accepts")
    rec.evaluations -= 1  # rec.case below counts one
    rec.case({"grammar": text, "inputs": len(inputs), "accepted": accepted}, len(ops) >= 3 and backtracked, labels=labels, key=text)
    if first_bad is not None:
        words, r = first_bad
        rec.fail({"rules": rules, "words": words, "features": sorted(feats)}, r[0], r[1])


def _lr(name, tail_lit, base_items, recursive_first):
    """rule `name: name tail | base` (or base first): left recursion over a base that may itself be left-recursive"""
    rec_alt = [[["l", ["ref", name]], ["t", peg.L(tail_lit)]], '("%s", l, t.string)' % name]
    base_alt = [base_items, None]
    return [name, False, [rec_alt, base_alt] if recursive_first else [base_alt, rec_alt]]


HAND_GRAMMARS = {
    # left-recursive rules nested in each other, the recursive alternative first or last at either level
    **{
        f"nested-leftrec-{int(o1)}{int(o2)}": [
            ["start", False, [[[["e", ["ref", "r1"]], [None, ["tok", "ENDMARKER"]]], '("S", e)']]],
            _lr("r1", "a", [[None, ["ref", "r2"]]], o1),
            _lr("r2", "c", [[None, peg.L("b")]], o2),
        ]
        for o1 in (True, False)
        for o2 in (True, False)
    },
    "nested-leftrec-3": [
        ["start", False, [[[["e", ["ref", "r1"]], [None, ["tok", "ENDMARKER"]]], '("S", e)'], [[["e", ["ref", "r1"]]], '("P", e)']]],
        _lr("r1", "a", [[None, ["ref", "r2"]]], True),
        _lr("r2", "c", [[None, ["ref", "r3"]]], False),
        ["r3", True, [[[[None, peg.L("b")]], None], [[["l", ["ref", "r3"]], [None, peg.L(",")], ["n", ["tok", "NAME"]]], '("r3", l, n.string)']]],
    ],
    # a grammar whose keyword table has exactly one entry, of two letters: names that are parts of it are still names
    "single-keyword": [["start", False, [[[[None, peg.L("ab")], ["n", ["tok", "NAME"]], [None, ["tok", "ENDMARKER"]]], '("K", n.string)'], [[["m", ["tok", "NAME"]], ["n", ["tok", "NAME"]], [None, ["tok", "ENDMARKER"]]], '("N", m.string, n.string)']]]],
    "single-soft-keyword": [["start", False, [[[[None, ["lit", '"ab"']], ["n", ["tok", "NAME"]], [None, ["tok", "ENDMARKER"]]], '("K", n.string)'], [[["m", ["tok", "NAME"]], [None, ["tok", "NUMBER"]], [None, ["tok", "ENDMARKER"]]], '("N", m.string)']]]],
    # left recursion that enters through the first element of a separated list at the start of an alternative
    "leftrec-through-gather": [["start", False, [[[["e", ["ref", "r1"]], [None, ["tok", "ENDMARKER"]]], '("S", e)'], [[["e", ["ref", "r1"]]], '("P", e)']]],
                               ["r1", False, [[[["xs", ["gather", peg.L(","), ["ref", "r1"]]], [None, peg.L("c")]], '("g", xs)'], [[[None, peg.L("b")]], None]]]],
    "leftrec-through-gather-indirect": [["start", False, [[[["e", ["ref", "r1"]], [None, ["tok", "ENDMARKER"]]], '("S", e)'], [[["e", ["ref", "r1"]]], '("P", e)']]],
                                        ["r1", False, [[[["xs", ["gather", peg.L(","), ["ref", "r3"]]], [None, peg.L("a")]], '("g", xs)'], [[["t", ["ref", "r2"]], [None, peg.L("c")]], '("q", t)'], [[[None, peg.L("b")]], None]]],
                                        ["r2", False, [[[["e", ["ref", "r1"]], [None, peg.L("(")]], '("t", e)']]],
                                        ["r3", True, [[[["e", ["ref", "r1"]], [None, peg.L(")")]], '("u", e)'], [[["n", ["tok", "NAME"]]], '("m", n.string)']]]],
    "leftrec": [["start", False, [[[["e", ["ref", "expr"]], [None, ["tok", "ENDMARKER"]]], '("S", e)']]],
                ["expr", False, [[[["l", ["ref", "expr"]], [None, peg.L("(")], ["r", ["ref", "term"]]], '("add", l, r)'], [[[None, ["ref", "term"]]], None]]],
                ["term", False, [[[[None, peg.L("a")], ["e", ["ref", "expr"]], [None, peg.L(")")]], '("par", e)'], [[["n", ["tok", "NAME"]]], '("n", n.string)'], [[["n", ["tok", "NUMBER"]]], None]]]],
    "indirect": [["start", False, [[[["e", ["ref", "a1"]], [None, ["tok", "ENDMARKER"]]], '("S", e)']]],
                 ["a1", False, [[[["x", ["ref", "b1"]], [None, peg.L("c")]], '("ax", x)'], [[[None, peg.L("a")]], None]]],
                 ["b1", False, [[[["y", ["ref", "a1"]], [None, peg.L(",")]], '("by", y)'], [[[None, peg.L("b")]], None]]]],
    "gather_opt_cut": [["start", False, [[[["e", ["ref", "r"]], [None, ["tok", "ENDMARKER"]]], '("S", e)']]],
                       ["r", True, [[[[None, peg.L("(")], [None, ["cut"]], ["xs", ["gather", peg.L(","), ["ref", "it"]]], ["t", ["opt", peg.L(",")]], [None, peg.L(")")]], '("tup", xs, t)'],
                                    [[[None, peg.L("(")], [None, peg.L(")")]], '("empty",)'], [[["xs", ["rep1", ["ref", "it"]]]], '("many", xs)']]],
                       ["it", False, [[[[None, ["neg", peg.L("b")]], ["n", ["tok", "NAME"]]], '("n", n.string)'], [[["g", ["grp", [[[[None, peg.L("a")], [None, peg.L("b")]], None], [[[None, peg.L("b")]], None]]]]], '("g", g)']]]],
}

SHRINK_FIELDS = ()


# ---------------------------------------------------------------------------------------------
# long inputs: the runtime under the generated code (memo table, left-recursion seeds, token cache) must behave the
# same on the 80 000th token as on the 8th.  Oracle (no reference interpreter needed): for 'start: stmt+ ENDMARKER' the
# value of a program is the list of the values its statements have when parsed alone.

LONG_HEADER = '@class TP\n@header """\nfrom typing import Any\nfrom peg_parser.subheader import Parser, memoize, memoize_left_rec, logger\n"""\n@trailer ""\n'
LONG_GRAMMARS = {
    "leftrec-with-memo-rules": (
        "start: s=stmt+ ENDMARKER { ('S', s) }\n"
        "stmt: e=expr ';' { e }\n"
        "expr: l=expr '.' m=call { ('call', l, m) } | l=expr i=index { ('idx', l, i) } | l=expr '.' n=NAME { ('attr', l, n.string) } | n=NAME { n.string }\n"
        "call (memo): n=NAME '(' ')' { n.string }\n"
        "index (memo): '(' n=NUMBER ')' { n.string }\n",
        [["n"], ["n", ".", "n"], ["n", ".", "n", "(", ")"], ["n", "(", "1", ")", ".", "n"], ["n", ".", "n", ".", "n", "(", ")", "(", "2", ")"], ["n", ".", "n", ".", "n", ".", "n", ".", "n", ".", "n", ".", "n", ".", "n", ".", "n", ".", "n"]],
    ),
    "gather-optional-repeat": (
        "start: s=stmt+ ENDMARKER { ('S', s) }\n"
        "stmt: 'a' l=','.item+ t=[','] ';' { ('list', l, bool(t)) } | 'b' r=item* ';' { ('rep', r) }\n"
        "item (memo): n=NAME { n.string } | '(' l=','.item+ ')' { ('tuple', l) } | n=NUMBER { n.string }\n",
        [["a", "n", ";"][:2], ["a", "n", ",", "1", ","], ["b"], ["b", "n", "n", "1"], ["a", "(", "n", ",", "(", "1", ")", ")", ",", "n"], ["b", "(", "n", ")", "(", "1", ",", "n", ")"]],
    ),
    "nested-cut-lookahead": (
        "start: s=stmt+ ENDMARKER { ('S', s) }\n"
        "stmt: e=term ';' { e }\n"
        "term (memo): '(' ~ t=term ')' { ('p', t) } | &NAME a=atom '.' t=term { ('dot', a, t) } | atom\n"
        "atom (memo): n=NAME { n.string } | n=NUMBER { n.string }\n",
        [["n"], ["1"], ["(", "n", ")"], ["n", ".", "n", ".", "1"], ["(", "(", "n", ".", "(", "1", ")", ")", ")"], ["n", ".", "(", "n", ".", "n", ")"]],
    ),
}


def check_long(rec, case):
    import random

    name, n_tokens = case["name"], case["n_tokens"]
    gtext, units = LONG_GRAMMARS[name]
    status, TP = get_parser(LONG_HEADER + gtext)
    rec.case(case, status == "ok", labels=("stream:long-input", f"grammar:{name}"), key=("long", name, n_tokens, case["seed"]))
    if status != "ok":
        rec.fail(case, f"generator-crash:long-input:{status}", {"error": str(TP)[:300]})
        return
    alone = []
    for u in units:
        r = run_gen(TP, [*u, ";"])
        if r[0] != "ok" or r[2] != len(u) + 2:
            rec.fail(case, "long-input:unit-not-accepted-alone", {"unit": u, "got": str(r)[:200]})
            return
        alone.append(r[1][2][1])  # ("tuple", "S", ("list", value))
    rnd = random.Random(case["seed"])
    words, expected, picks = [], [], []
    while len(words) < n_tokens:
        k = rnd.randrange(len(units))
        picks.append(k)
        words += [*units[k], ";"]
        expected.append(alone[k])
    try:
        with watchdog(300):
            got = run_gen(TP, words)
    except SoftTimeout:
        rec.inconclusive["long-input-timeout"] += 1
        return
    except RecursionError:
        got = ("gen-recursion",)
    want = ("ok", ("tuple", "S", ("list", *expected)), len(words) + 1)
    if got != want:
        where = None
        if got[0] == "ok" and isinstance(got[1], tuple) and len(got[1]) == 3 and isinstance(got[1][2], tuple):
            vals = got[1][2][1:]
            where = next((i for i, (a, b) in enumerate(zip(vals, expected)) if a != b), min(len(vals), len(expected)))
        rec.fail(case, f"long-input:{got[0]}", {"grammar": gtext, "tokens": len(words), "statements": len(picks), "first_differing_statement": where, "consumed": got[2] if len(got) > 2 else None})


def search(rec, ctx):
    budget = 40000 if ctx.thorough else 9500
    longs = [(n, sz) for n in sorted(LONG_GRAMMARS) for sz in ((90_000,) if not ctx.thorough else (30_000, 90_000, 200_000))]
    for n, sz in ctx.shard(longs):
        check(rec, {"kind": "long", "name": n, "n_tokens": sz, "seed": ctx.hseed("long") % 100000})
    for i, (name, rules) in enumerate(sorted(HAND_GRAMMARS.items())):
        if i % ctx.n == ctx.k:
            check_grammar(rec, rules, {"hand:" + name}, budget, "hand")

    def gen(rnd):
        g = peg.GGen(rnd, allow_forced=True)
        rules = g.grammar()
        if peg.falsy_possible(rules):
            rec.exclude("alternative-could-succeed-falsy")
            return
        check_grammar(rec, rules, g.feats, budget, "random")

    drive(st.randoms(use_true_random=False), gen, ctx.budget(560, 4000), ctx.hseed("grammars"))


def candidates(case):
    """smaller grammars: drop a rule's alternative, drop an item, replace a group by one of its alternatives' items, drop (memo)"""
    import copy

    if case.get("kind") == "long":
        n = case["n_tokens"]
        while n > 200:
            n //= 2
            yield dict(case, n_tokens=n)
        return
    rules = case["rules"]
    text = __import__("json").dumps(rules)
    for ri, (name, memo, alts) in enumerate(rules):
        if name != "start" and f'["ref", "{name}"]' not in text:
            c = copy.deepcopy(case)
            del c["rules"][ri]
            yield c
    for ri, (name, memo, alts) in enumerate(rules):
        if name == "start":
            continue
        if memo:
            c = copy.deepcopy(case)
            c["rules"][ri][1] = False
            yield c
        if len(alts) > 1:
            for ai in range(len(alts)):
                c = copy.deepcopy(case)
                del c["rules"][ri][2][ai]
                yield c
        for ai, (items, action) in enumerate(alts):
            if len(items) > 1:
                for ii in range(len(items)):
                    c = copy.deepcopy(case)
                    it = c["rules"][ri][2][ai][0]
                    removed = it[ii][0]
                    del it[ii]
                    if removed and c["rules"][ri][2][ai][1] and removed in c["rules"][ri][2][ai][1]:
                        c["rules"][ri][2][ai][1] = None
                        for x in it:
                            x[0] = None
                    yield c
            for ii, (nm, item) in enumerate(items):
                if item[0] in ("opt", "rep0", "rep1", "pos", "neg"):
                    c = copy.deepcopy(case)
                    c["rules"][ri][2][ai][0][ii][1] = item[1]
                    yield c
                if item[0] == "grp":
                    for galt in item[1]:
                        for _, gi in galt[0]:
                            c = copy.deepcopy(case)
                            c["rules"][ri][2][ai][0][ii][1] = gi
                            yield c
    # shorter input
    w = case["words"]
    for i in range(len(w)):
        c = copy.deepcopy(case)
        del c["words"][i]
        yield c
