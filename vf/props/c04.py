"""C04 -- every returned tree is a well-formed, compilable CPython AST."""

from __future__ import annotations

import ast
import re

from hypothesis import strategies as st

from ..common import cpy, outcome
from ..gen import corpus, xonsh
from ..gen.fstr import FGen
from ..gen.pysrc import PyGen
from ..hyp import drive
from . import c05

META = {
    "level": "exploration",
    "rule": (
        "inputs: accepted sources from (1) G1 programs / corpus statements / f-string statements, (2) xonsh seeds, generated subprocess command "
        "lines (C06 model), macros (C07 models) and xonsh statements, (3) a placement stream that puts generated xonsh constructs at every "
        "expression hole of G1/corpus contexts (call func/args/keywords, subscripts, slices, comprehension parts, lambda bodies and defaults, "
        "decorator arguments, class bases, with items, walrus values, f-string fields, nested inside other constructs) and $NAME/${expr} in 15 "
        "binding-target templates plus del/augassign/annotation targets.  Rejected placements are outside the domain.  Oracle: (a) structural "
        "validator derived from the ASDL signatures in each ast class __doc__ (required/optional/list fields, element types), complete spans "
        "with (1,0) <= start <= end <= end of text, expression contexts computed top-down from the parent field; (b) compile(tree, mode) raises "
        "neither TypeError nor ValueError, and if it raises SyntaxError then compile(ast.unparse(tree)) raises SyntaxError too.  non-trivial = "
        "the tree contains a node synthesised by hand (any __xonsh__ call/subscript) or a binding/del target other than a bare name; "
        "distinct by (mode, text)."
    ),
    "assumptions": ["ASDL signatures are read from the running CPython's ast class docstrings", "None elements are allowed in Dict.keys and arguments.kw_defaults, as CPython itself produces them"],
}

_SIG = re.compile(r"^(\w+)\((.*)\)$", re.S)
_TABLE = {}
_BASE = {"identifier": str, "string": (str, bytes), "int": int, "constant": object}


def field_table():
    if _TABLE:
        return _TABLE
    for name in dir(ast):
        cls = getattr(ast, name)
        if not (isinstance(cls, type) and issubclass(cls, ast.AST)) or not cls.__doc__:
            continue
        m = _SIG.match(" ".join(cls.__doc__.split()))
        if not m or m.group(1) != name:
            if not cls._fields and cls.__doc__.strip() == name:
                _TABLE[name] = {}  # operator / context singletons: no fields
            continue
        fields = {}
        body = m.group(2).strip()
        if body:
            for part in body.split(","):
                typ, fname = part.strip().rsplit(" ", 1)
                q = ""
                if typ[-1] in "*?":
                    typ, q = typ[:-1], typ[-1]
                fields[fname] = (typ, q)
        _TABLE[name] = fields
    return _TABLE


def type_ok(v, typ):
    if typ in _BASE:
        return isinstance(v, _BASE[typ]) and not (typ == "int" and isinstance(v, bool))
    cls = getattr(ast, typ, None)
    return cls is not None and isinstance(v, cls)


NONE_OK_IN_LIST = {("Dict", "keys"), ("arguments", "kw_defaults")}
TARGET_FIELDS = {("Assign", "targets"), ("AugAssign", "target"), ("AnnAssign", "target"), ("For", "target"), ("AsyncFor", "target"), ("comprehension", "target"), ("withitem", "optional_vars"), ("NamedExpr", "target"), ("TypeAlias", "name")}


def wellformed(tree, src: str):
    """first structural problem as (signature, detail) or None"""
    table = field_table()
    lines = src.split("\n")
    last = (len(lines), len(lines[-1]))
    # stack of (node, expected context or None)
    stack = [(tree, None, "")]
    while stack:
        node, want_ctx, path = stack.pop()
        cname = type(node).__name__
        sig = table.get(cname)
        if sig is None:
            return ("unknown-node-class", {"class": cname, "at": path})
        if "lineno" in node._attributes:
            pos = tuple(getattr(node, a, None) for a in ("lineno", "col_offset", "end_lineno", "end_col_offset"))
            if not all(isinstance(x, int) and not isinstance(x, bool) for x in pos):
                return (f"span-incomplete:{cname}", {"at": path, "pos": pos})
            if not ((1, 0) <= pos[:2] <= pos[2:] <= last):
                return (f"span-out-of-order-or-range:{cname}", {"at": path, "pos": pos, "text_end": last})
            # each end of the span lies on its own line: 0 <= column <= length of that line (its line end included:
            # a verbatim macro argument may end with the NL token)
            for ln, col in (pos[:2], pos[2:]):
                if not (0 <= col <= len(lines[ln - 1]) + (1 if ln < len(lines) else 0)):
                    return (f"span-column-outside-its-line:{cname}", {"at": path, "pos": pos, "line_length": len(lines[ln - 1])})
        if "ctx" in sig:
            ctx = getattr(node, "ctx", None)
            exp = want_ctx or "Load"
            if type(ctx).__name__ != exp:
                return (f"context:{cname}:{exp}->{type(ctx).__name__}", {"at": path})
        for f, (typ, q) in sig.items():
            if not hasattr(node, f):
                if q == "":
                    return (f"missing-required-field:{cname}.{f}", {"at": path})
                continue  # optional fields default to None / lists must exist
            v = getattr(node, f)
            if q == "*":
                if not isinstance(v, list):
                    return (f"not-a-list:{cname}.{f}", {"at": path, "got": type(v).__name__})
                for i, e in enumerate(v):
                    if e is None and (cname, f) in NONE_OK_IN_LIST:
                        continue
                    if not type_ok(e, typ):
                        return (f"bad-element:{cname}.{f}:{type(e).__name__}", {"at": f"{path}.{f}[{i}]"})
                children = [e for e in v if isinstance(e, ast.AST)]
            elif q == "?":
                if v is not None and not type_ok(v, typ):
                    return (f"bad-optional:{cname}.{f}:{type(v).__name__}", {"at": path})
                children = [v] if isinstance(v, ast.AST) else []
            else:
                if v is None and typ != "constant":
                    return (f"required-field-is-None:{cname}.{f}", {"at": path})
                if v is not None and not type_ok(v, typ):
                    return (f"bad-field:{cname}.{f}:{type(v).__name__}", {"at": path})
                children = [v] if isinstance(v, ast.AST) else []
            for c in children:
                if isinstance(c, ast.expr_context):
                    continue
                child_ctx = None
                if (cname, f) in TARGET_FIELDS:
                    child_ctx = "Store"
                elif (cname, f) == ("Delete", "targets"):
                    child_ctx = "Del"
                elif cname in ("Tuple", "List") and f == "elts" and want_ctx in ("Store", "Del"):
                    child_ctx = want_ctx
                elif cname == "Starred" and f == "value" and want_ctx in ("Store", "Del"):
                    child_ctx = want_ctx
                stack.append((c, child_ctx, f"{path}.{f}"))
    return None


def hand_built(tree) -> bool:
    for n in ast.walk(tree):
        if isinstance(n, ast.Name) and n.id == "__xonsh__":
            return True
        if isinstance(n, (ast.Assign, ast.For, ast.AsyncFor, ast.Delete, ast.AugAssign, ast.AnnAssign, ast.withitem, ast.comprehension)):
            tg = getattr(n, "targets", None) or [getattr(n, "target", None) or getattr(n, "optional_vars", None)]
            if any(t is not None and not isinstance(t, ast.Name) for t in tg):
                return True
    return False


def check(rec, case):
    src, mode = case["src"], case.get("mode", "exec")
    o = outcome(src, mode)
    stream = case.get("stream", "?")
    if o.kind != "tree":
        rec.case(case, False, labels=(f"stream:{stream}", f"outcome:{o.kind}"))
        return
    tree = o.tree
    rec.case(case, hand_built(tree), labels=(f"stream:{stream}", "outcome:tree", f"mode:{mode}"), key=(mode, src))
    bad = wellformed(tree, src)
    if bad is not None:
        rec.fail(case, "malformed:" + bad[0], bad[1])
        return
    try:
        compile(tree, "<verif>", mode)
    except (TypeError, ValueError) as e:
        rec.fail(case, f"compile:{type(e).__name__}:{re.sub(r'[0-9]+', 'N', str(e))[:60]}", {"error": str(e)[:200]})
    except SyntaxError as e:
        # the written-out Python of a program that is Python already is the program itself
        try:
            compile(src, "<verif-source>", mode)
            rec.fail(case, f"compile-rejects-but-the-source-itself-compiles:{e.msg[:50]}", {"error": e.msg})
            return
        except (SyntaxError, ValueError, RecursionError):
            pass
        try:
            text = ast.unparse(tree)
        except Exception as ue:  # noqa: BLE001
            rec.fail(case, f"unparse:{type(ue).__name__}", {"error": str(ue)[:200]})
            return
        try:
            compile(text, "<verif-unparsed>", mode)
        except SyntaxError:
            rec.count("compile-rejected-for-semantic-reasons-like-the-written-out-python")
            return
        except (ValueError, RecursionError):
            return
        rec.fail(case, f"compile-rejects-but-written-out-python-compiles:{e.msg[:50]}", {"error": e.msg, "unparsed": text[:200]})
    except RecursionError:
        rec.inconclusive["compile-recursion"] += 1


TARGET_EXTRA = ["del {T}\n", "del {T}, x\n", "{T} += 1\n", "{T}: int = 1\n", "({T}) = 2\n", "[{T}] = z\n", "x = [{T} for {T} in y]\n", "with a as [{T}, b]:\n    pass\n", "for ({T}, *r) in y:\n    pass\n", "x = ({T} := 3)\n", "def f({T}=1): pass\n", "lambda {T}: 0\n", "global {T}\n", "import a as {T}\n", "class {T}: pass\n", "try:\n    pass\nexcept E as {T}:\n    pass\n"]


def search(rec, ctx):
    crng = ctx.rng("corpus")
    corp = [s for _, s in corpus.sample_statements(crng, 30 if ctx.thorough else 4, per_file=40 if ctx.thorough else 25) if len(s) < 1500]
    for s in ctx.shard(xonsh.xonsh_seeds()):
        check(rec, {"src": s, "stream": "xonsh-seed"})
        check(rec, {"src": s.strip(), "mode": "eval", "stream": "xonsh-seed"})
    for s in corp:
        check(rec, {"src": s, "stream": "corpus"})

    # programs whose acceptance by compile() hangs on a detail of the tree (simple=0/1 of AnnAssign, scopes, contexts):
    # compile(tree) must do what compile(source) does
    EDGE = [
        "def f():\n    global x\n    (x): int = 0\n", "def f():\n    global x\n    x: int = 0\n", "class A:\n    (y): int = 1\n    z: int\n    (w): str\n", "(a.b): int\n", "(a[0]): int = 1\n", "(x): int\n",
        "def g():\n    v = 1\n    def h():\n        nonlocal v\n        (v): int = 2\n    return h\n", "def f(a, /, b=1, *c, d, **e) -> int: pass\n", "async def f():\n    return [x async for x in y]\n",
        "def f():\n    return (yield)\n", "x = lambda: (yield)\n", "def f():\n    x = [(yield 1)]\n", "class A:\n    def f(self):\n        return __class__\n", "def f(*, a): pass\nf(a=1)\n",
        "del (a), [b], (c, d)\n", "for (a) in b: pass\n", "with a as (b): pass\n", "[(a) for (a) in b]\n", "(a) = 1\n", "((a), b) = c\n", "(a) += 1\n", "x = (y := 1)\n", "def f(): (yield)\n",
        "try:\n    pass\nexcept* A:\n    pass\n", "def f():\n    try:\n        pass\n    except* A:\n        return\n", "while 1:\n    try:\n        pass\n    finally:\n        continue\n", "def f[T](): pass\n", "type X[T] = T\n",
        "match a:\n    case x: pass\n    case y: pass\n", "match a:\n    case [x, x]: pass\n", "match a:\n    case {'k': v, **r}: pass\n", "f(**a, b=1)\n", "f(a for a in b)\n", "print(*a, sep='')\n",
    ]
    for s_ in ctx.shard(EDGE):
        check(rec, {"src": s_, "stream": "semantic-edge"})
    # expression lists as the whole input (eval mode) and as the Python part of a subprocess word
    for e in ctx.shard(["x,", "f(a)[0],", "x, y", "*a,", "x, *y, z", "(x,)", "x,\n", "a if b else c,", "lambda: 0,", "$X,", "x, $(ls)"]):
        check(rec, {"src": e, "mode": "eval", "stream": "expression-lists"})
        check(rec, {"src": e.strip() + "\n", "stream": "expression-lists"})
        check(rec, {"src": f"$(echo @({e.strip()}))\n", "stream": "expression-lists"})
        check(rec, {"src": f"r = ![cmd @({e.strip()}) @$(w {e.strip().split(',')[0]})]\n", "stream": "expression-lists"})

    def py(rnd):
        r = rnd.random()
        if r < 0.7:
            check(rec, {"src": PyGen(rnd, nonascii=rnd.random() < 0.1).program(3), "stream": "g1"})
        elif r < 0.85:
            check(rec, {"src": PyGen(rnd).expr(0), "mode": "eval", "stream": "g1-expr"})
        else:
            check(rec, {"src": FGen(rnd).statement(), "stream": "g7"})

    drive(st.randoms(use_true_random=False), py, ctx.budget(5000, 60000), ctx.hseed("py"))

    def xsh(rnd):
        r = rnd.random()
        if r < 0.35:
            cmd = xonsh.gen_cmd(rnd)
            check(rec, {"src": cmd.text, "mode": "eval", "stream": "subproc-model"})
            check(rec, {"src": "x = " + cmd.text + "\n", "stream": "subproc-model"})
        elif r < 0.5:
            c = xonsh.call_macro_case(rnd)
            check(rec, {"src": c["ctx"].replace("{M}", c["macro"]), "stream": "call-macro"})
        elif r < 0.6:
            c = xonsh.proc_macro_case(rnd)
            check(rec, {"src": c["text"] + "\n", "stream": "proc-macro"})
        elif r < 0.75:
            c = xonsh.with_macro_case(rnd)
            check(rec, {"src": c["src"], "stream": "with-macro"})
        else:
            sg = xonsh.sugar(rnd)
            check(rec, {"src": sg.text, "mode": "eval", "stream": "sugar"})
            check(rec, {"src": f"r = [{sg.text}, *{sg.text if sg.level == 'atom' else 'z'}]\n", "stream": "sugar"})

    drive(st.randoms(use_true_random=False), xsh, ctx.budget(8000, 100000), ctx.hseed("xsh"))

    def placement(rnd):
        if corp and rnd.random() < 0.5:
            src = corp[rnd.randrange(len(corp))]
        else:
            src = PyGen(rnd).program(3)
        if not src.isascii():
            return
        c = cpy(src)
        if c.kind != "tree":
            return
        hs = c05.holes(c.tree, src)
        if not hs:
            return
        offs = c05.line_offsets(src)
        for _ in range(3):
            node, kind, pf, depth = hs[rnd.randrange(len(hs))]
            sg = xonsh.sugar(rnd)
            text = f"({sg.text})" if sg.level == "bool" and kind != "full" else sg.text
            a = offs[node.lineno - 1] + node.col_offset
            b = offs[node.end_lineno - 1] + node.end_col_offset
            pre = " " if a > 0 and src[a - 1] == "@" else ""
            check(rec, {"src": src[:a] + pre + text + src[b:], "stream": "placement"})

    drive(st.randoms(use_true_random=False), placement, ctx.budget(5000, 100000), ctx.hseed("placement"))

    def targets(rnd):
        tmpl = rnd.choice(xonsh.STORE_TEMPLATES + TARGET_EXTRA)
        for _ in range(20):
            sg = xonsh.sugar(rnd, allow_bool=False)
            if sg.kind in ("$NAME", "${expr}") or rnd.random() < 0.1:
                break
        pre, *rest = tmpl.split("{T}")
        src = (pre + sg.text + (sg.text.join(rest) if len(rest) > 1 else rest[0])).replace("{{", "{").replace("}}", "}") if rest else tmpl
        check(rec, {"src": src, "stream": "target-placement"})

    drive(st.randoms(use_true_random=False), targets, ctx.budget(3000, 30000), ctx.hseed("targets"))

    # xonsh atoms where a match pattern expects a literal, a key, a class or a value: rejected, or a tree compile() takes
    PATTERN_TEMPLATES = ["match v:\n    case {L}: pass\n", "match v:\n    case {{{L}: 1}}: pass\n", "match v:\n    case [{L}, *_]: pass\n", "match v:\n    case A(k={L}): pass\n", "match v:\n    case {L} | 2: pass\n",
                         "match v:\n    case {L}.a: pass\n", "match v:\n    case {L}(): pass\n", "match v:\n    case ({L}) as w: pass\n", "match {L}:\n    case 1: pass\n", "match v:\n    case 1 if {L}: pass\n", "match v:\n    case -{L}: pass\n", "match v:\n    case 1+{L}: pass\n"]

    def patterns(rnd):
        sg = xonsh.sugar(rnd, allow_bool=False)
        tmpl = rnd.choice(PATTERN_TEMPLATES)
        check(rec, {"src": tmpl.replace("{{", "\x00").replace("}}", "\x01").replace("{L}", sg.text).replace("\x00", "{").replace("\x01", "}"), "stream": "pattern-placement"})

    drive(st.randoms(use_true_random=False), patterns, ctx.budget(2500, 25000), ctx.hseed("patterns"))
