"""C11 -- syntax errors are well-formed and point into the offending source."""

from __future__ import annotations

from hypothesis import strategies as st

from ..common import outcome
from ..gen import corpus, mutate, xonsh
from ..gen.pysrc import PyGen
from ..hyp import drive

META = {
    "level": "exploration",
    "rule": (
        "inputs: rejected texts -- G4 token/line mutations and token-aligned prefixes of G1 programs, corpus statements and xonsh seeds; "
        "~120 targeted errors that reach the invalid_* diagnostics, literal evaluation, the version check, macro bracket matching and "
        "tokenizer indentation errors, each wrapped by layout dimensions (k blank/comment lines before, statements before/after, inside a "
        "multi-line bracket with blank and comment lines inside the span, after a multi-line string, inside an indented block, with/without "
        "final newline, CRLF), in exec and eval mode and with py_version=(3,8); G10 programs (tokens spanning several lines, multi-line call-macro "
        "arguments) before/around faulty code; a fifth of the inputs is also written to ONE file per worker (rewritten for every case) and parsed "
        "with parse_file, where the error text is re-read from the file.  Oracle (predicate over the exception and the text, lines "
        "split on '\\n'): msg and filename non-empty str; 1<=lineno<=nlines+1; 1<=offset<=len(line)+1; end position present and >= start; "
        "text is a str that starts with the reported physical source line (trailing blanks included, line end excluded).  non-trivial = input has >=3 lines and the reported "
        "line is not line 1, or the span covers more than one line; distinct by (text, options)."
    ),
    "assumptions": ["TokenError outcomes are outside C11 (C03 allows them); trees and other exceptions are not C11's business"],
}

TARGETED = [
    "if a\n    pass", "if a:\npass", "while x\n  y", "for x in y\n  z", "for x y:\n  pass", "def f(:\n  pass", "def f()\n  pass", "class A\n  pass", "class A(:\n  pass",
    "x = (1, 2", "x = [1, 2", "x = {1: 2", "x = 1 +", "x = = 1", "x == 1 = 2", "f(a=1, b)", "f(a for a in b, c)", "f(**a, *b)", "f(a=1, a=2, *c, **d, e)", "f(a b)", "f(a, b c)",
    "print x", "exec 'x'", "x = 1 if 2", "x = 1 if 2 else", "a if b else c = 1", "lambda x: y = 1", "(a, b) += 1", "a + 1 = 2", "f() = 1", "[a, 1] = x", "(a := 1) = 2", "x := 1",
    "del f()", "del 1", "del a + b", "del *a", "for 1 in x: pass", "for f() in x: pass", "with a as 1: pass", "with a as f(): pass", "import a.b as c.d", "from a import (b", "from a import *, b", "from . import", "import",
    "def f(a, a=1, b): pass", "def f(*): pass", "def f(**a, b): pass", "def f(a=1, /, b): pass", "def f(*, **a): pass", "def f(a, *, /): pass", "def f(/): pass", "lambda *: 0", "lambda **a, b: 0", "lambda a=1, b: 0",
    "{1: 2, 3}", "{1: }", "{**a: 1}", "{1: *a}", "{a: 1 for a in b, c}", "[a for a in b if]", "[*a for a in b]", "{**a for a in b}", "(a for a in)", "x[1:2:3:4]", "x[]", "x[1,]  = ", "a.1", "a..b", "1a", "0x", "1__0", "0b2", "1e",
    "try:\n  pass", "try:\n  pass\nexcept:\n  pass\nexcept A:\n  pass\nelse", "try:\n  a\nexcept A, B:\n  b", "try:\n a\nexcept* :\n b", "try:\n a\nexcept A:\n b\nexcept* B:\n c", "try:\n a\nfinally:\n b\nelse:\n c",
    "else:\n  pass", "elif a:\n  pass", "if a:\n  b\nelse\n  c", "if a:\n  b\nelif\n  c", "match x:\n  case 1\n    pass", "match x:\ncase 1:\n  pass", "match x:\n  case a.b as c.d: pass", "match x:\n  case {**a, 'b': c}: pass", "match x:\n  case A(k=1, 2): pass", "match x:\n case 1 | a | b: pass\n case -a: pass",
    "return = 1", "None = 1", "True = 2", "x = yield = 1", "async x = 1", "await = 1 2", "class = 1", "global a b", "nonlocal", "assert", "raise from x", "pass pass", "break 1", "a; ; b",
    "x = 'abc' \"def", "x = b'é'", "x = '\\N{bogus}'", "x = 'a' b'b'", "x = b'\\xzz'", "x = u'\\u12'", "x = f'{a'", "x = f'{}'", "x = f'{a!z}'", "x = f'{a!}'", "x = f'{a:{b}'", "x = f'{=}'", "x = f'{a b}'", "x = f'{a!r:}}'",
    "y = f'''{x} ab\n cd \\N{foo}'''", "z = f'''a\n\\x4'''", "w = f\"\"\"t\n\n  \\N{nope} {u}\"\"\"", "v = (f'{a}'\n     '\\N{bad}')", "u = ('a'\n 'b' b'c')", "t = '''m\nn''' '\\N{no}'",
    "def f():\n'''doc\nstring'''\n", "if a:\n\"\"\"x\ny\"\"\"", "class A:\n'''d\nd2'''\npass", "for i in j:\n(1,\n 2)", "while a:\nf'''{b}\nc'''", "with a:\nx = [\n1]", "try:\n'''s\nt'''\nfinally: pass",
    # literals that do not mix, in either order and over several lines (the report names two pieces of the run)
    "x = b'a' f'{x}'", "x = f'{x}' b'a'", "x = (b'a'\n     f'{x}')", "x = (f'{x}'\n  b'a')", "x = 'a' f'{x}' b'a' 'c'", "x = b'a' 'c' f'{y}'", "x = (b'''a\nb''' f'{y}'\n 'z')", "x = f'{a}' f'{b}' b''", "y = b'' f''", "f(b'a' f'b', 1)",
    "z = (b'a'\n\n     # c\n     f'{x}'\n     'q')", "g(1,\n  b'1' b'2'\n  f'3')", "u = b'a' 'b'", "u = ('a'\n   b'b'\n   'c')",
    "type X = ", "type X[T = 1", "def f[T(): pass", "class A[]: pass", "type = = 1",
    "  x = 1", "if a:\n  b\n c", "if a:\n    b\n  c\n", "def f():\n\tx\n        y\n   z", "x = 1\n  y = 2", "if a:\nb",
    "f!(a, (b]", "f!((]", "f!(a, [1,\n   2)", "g!((x,\n y]", "h!(a,\n b,\n {c)", "r = k!([\n\n 1}\n)", "$(echo @(a,\n b]))", "x = [1,\n 2)", "x = {1:\n 2]", "f(a,\n b]", "$(ls", "$[ls )", "![ls", "${a", "$(echo @(a b))", "@(a)", "x = $", "x = $ a", "with! a\n  b", "with a as $: pass", "a && = b", "a || ", "p'a' = 1", "x = `a", "echo 'a", "x??? ", "$(ls) = 1", "for $(a) in b: pass", "del $X?",
    # a reported node that spans lines and ends further right than its first line is long
    "d = {1: 2, f(a,\n                    bbbbbbbb)}", "{'k': v, (x,\n              yyyyyyyyyyyy)\n}", "x = {a: 1, [p,\n            qqqqqqqqqqqqqqq]}", "f(k=1, (a,\n                bbbbbbbbbbbb))", "x = [1, (a,\n               bbbbbbbbbbbbbb) 2]",
    "(a,\n              bbbbbbbbbbbbbbbb) = 1 = 2 +", "del (a,\n           f(bbbbbbbbbbbbbbbbbb))", "for (a,\n     f(bbbbbbbbbbbbbbbbbbbbbb)) in x: pass", "with a as (b,\n   cccccccccccccccccccc.d()): pass",
    # spans of hundreds of lines: the reported start lies far above the last token read
    "f(\n" + " a,\n" * 300 + ") = 1", "x = [\n" + " 1,\n" * 700 + " 2 3]", "y = 0\nfoo(a, b for b in\n" + " c,\n" * 320 + " d)\nz = 1", "v = b'''\n" + "line\n" * 400 + "é'''\n", "del (\n" + " k,\n" * 290 + " 1)",
    "{\n" + " 'a': 1,\n" * 350 + " **b: 2}", "def f(\n" + " a,\n" * 300 + " a=1, b): pass", "with (\n" + " m as n,\n" * 280 + " p as 1): pass",
    # literal evaluation: integers over sys.get_int_max_str_digits() (plain, signed/complex patterns, inside brackets)
    "n = " + "9" * 4400, "m = [1,\n " + "7" * 4301 + "]", "match v:\n  case -" + "1" * 4500 + ":\n    pass", "match v:\n  case " + "3" * 4500 + "+1j:\n    pass", "k = (2 +\n " + "8" * 5000 + "\n)", "-" + "6" * 4400 + " + a",
]
VERSIONED = ["type X = 1", "def f[T](): pass", "class A[T]: pass", "try:\n  a\nexcept* B:\n  c", "type X[T] = list[T]", "def f[*Ts, **P](a): pass"]


def split_lines(src: str):
    # parse_string reads the text with universal newlines (as CPython does)
    src = src.replace("\r\n", "\n").replace("\r", "\n")
    parts = src.split("\n")
    lines = parts[:-1] if src.endswith("\n") else parts
    return lines or [""]


def oracle(src: str, e: SyntaxError):
    """list of problem labels (empty = well-formed)"""
    probs = []
    lines = split_lines(src)
    nlines = len(lines)
    if not isinstance(e.msg, str) or not e.msg.strip():
        probs.append("msg")
    if not isinstance(e.filename, str) or not e.filename:
        probs.append("filename")
    if not isinstance(e.lineno, int) or isinstance(e.lineno, bool) or not (1 <= e.lineno <= nlines + 1):
        probs.append("lineno")
        return probs
    line = lines[e.lineno - 1] if e.lineno - 1 < nlines else ""
    if not isinstance(e.offset, int) or isinstance(e.offset, bool) or not (1 <= e.offset <= len(line) + 1):
        probs.append("offset")
    el, eo = getattr(e, "end_lineno", None), getattr(e, "end_offset", None)
    if not isinstance(el, int) or not isinstance(eo, int):
        probs.append("no-end")
    elif isinstance(e.offset, int) and (el, eo) < (e.lineno, e.offset):
        probs.append("end<start")
    if not isinstance(e.text, str):
        probs.append("text-missing")
    elif not e.text.startswith(line):  # (line = the physical line without its line end, blanks included)
        probs.append("text-mismatch")
    return probs


_FILE = {}


def check_file_entry(rec, case, src):
    """the same record must be well-formed when the text comes from a file (error text is then re-read from the file):
    one path per worker is rewritten for every case, as an editor saving the same file would"""
    import os
    import pathlib
    import tempfile

    from ..common import XonshParser, classify_exception, SoftTimeout, watchdog

    if "\r" in src or "\x00" in src:
        return
    try:
        data = src.encode("utf-8")
    except UnicodeEncodeError:
        return
    if "path" not in _FILE:
        _FILE["path"] = pathlib.Path(tempfile.mkdtemp(prefix="vf-c11-", dir=os.environ.get("VERIF_WORKER_TMP"))) / "edited.xsh"
    p = _FILE["path"]
    p.write_bytes(data)
    try:
        with watchdog():
            XonshParser().parse_file(p)
        return
    except SoftTimeout:
        return
    except BaseException as e:  # noqa: BLE001
        o = classify_exception(e)
    if o.kind != "error":
        return
    rec.count("file-entry-errors")
    # (a U+FEFF at the very start of a UTF-8 file is its signature, not text: positions and quoted lines count from after it)
    probs = oracle(src[1:] if src.startswith("\ufeff") else src, o.exc)
    if probs:
        e = o.exc
        rec.fail(dict(case, entry="file"), f"{'+'.join(probs)}@{o.site}:file-entry", {"msg": str(e.msg)[:120], "lineno": e.lineno, "offset": e.offset, "end": [getattr(e, "end_lineno", None), getattr(e, "end_offset", None)], "text": (e.text if isinstance(e.text, str) else repr(e.text))[:120], "filename": e.filename, "class": type(e).__name__})


def check(rec, case):
    src = case["src"]
    mode = case.get("mode", "exec")
    opts = {}
    if case.get("py_version"):
        opts["py_version"] = tuple(case["py_version"])
    o = outcome(src, mode, **opts)
    stream = case.get("stream", "?")
    if o.kind != "error":
        rec.case(case, False, labels=(f"stream:{stream}", f"outcome:{o.kind}"))
        if o.kind in ("raise", "hang"):
            rec.inconclusive[f"forwarded-to-C03:{o.canon()}"[:100]] += 1
        return
    e = o.exc
    lines = split_lines(src)
    multi = isinstance(e.lineno, int) and isinstance(getattr(e, "end_lineno", None), int) and e.end_lineno > e.lineno
    nt = (len(lines) >= 3 and isinstance(e.lineno, int) and e.lineno != 1) or multi
    labels = [f"stream:{stream}", "outcome:error", f"site:{o.site}", f"class:{type(e).__name__}"]
    if multi:
        labels.append("span:multi-line")
    for f in case.get("wrap", ()):
        labels.append(f"wrap:{f}")
    rec.case(case, nt, labels=labels, key=(src, mode, case.get("py_version")))
    if case.get("file") and not opts and mode == "exec":
        check_file_entry(rec, case, src)
    probs = oracle(src, e)
    if probs:
        rec.fail(case, f"{'+'.join(probs)}@{o.site}", {"msg": str(e.msg)[:120], "lineno": e.lineno, "offset": e.offset, "end": [getattr(e, "end_lineno", None), getattr(e, "end_offset", None)], "text": (e.text if isinstance(e.text, str) else repr(e.text))[:120], "filename": e.filename, "class": type(e).__name__})


def wrap(rnd, err: str):
    """embed an erroneous snippet in the layout dimensions the property names"""
    feats = []
    body = err if err.endswith("\n") else err + "\n"
    k = rnd.choice(["none", "before", "after", "both", "block", "bracket", "after-mlstring", "blank-lines"])
    if k in ("before", "both"):
        n = rnd.randint(1, 4)
        body = "".join(rnd.choice(["a = 1\n", "\n", "# comment\n", "def g():\n    return 1\n", "x = '''m\nl'''\n"]) for _ in range(n)) + body
        feats.append("statements-before")
    if k in ("after", "both"):
        body = body + "".join(rnd.choice(["b = 2\n", "\n", "# c\n", "c = (1,\n 2)\n"]) for _ in range(rnd.randint(1, 3)))
        feats.append("statements-after")
    if k == "block":
        ind = rnd.choice(["    ", "  ", "\t"])
        body = rnd.choice(["if z:\n", "def f():\n", "class K:\n", "for i in j:\n"]) + "".join(ind + ln + "\n" for ln in body.rstrip("\n").split("\n"))
        feats.append("inside-block")
    if k == "bracket":
        inner = err.replace("\n", " ")
        body = "y = f(1,\n\n  # comment inside\n  2, " + inner + ",\n\n  3)\n"
        feats.append("inside-multiline-bracket")
    if k == "after-mlstring":
        body = "s = '''first\nsecond\n\nthird'''\n" + body
        feats.append("after-multiline-string")
    if k == "blank-lines":
        body = "\n" * rnd.randint(1, 3) + "# c\n" + body
        feats.append("blank-lines-before")
    if rnd.random() < 0.25:
        body = body.rstrip("\n")
        feats.append("no-final-newline")
    if rnd.random() < 0.12:
        body = body.replace("\n", "\r\n")
        feats.append("crlf")
    return body, feats


def search(rec, ctx):
    seeds = xonsh.xonsh_seeds()
    crng = ctx.rng("corpus")
    corp = [s for _, s in corpus.sample_statements(crng, 30 if ctx.thorough else 4, per_file=40 if ctx.thorough else 25) if len(s) < 1500]

    for i, err in enumerate(TARGETED):
        if i % ctx.n != ctx.k:
            continue
        check(rec, {"src": err, "stream": "targeted"})
        check(rec, {"src": err + "\n", "stream": "targeted"})
        check(rec, {"src": err, "stream": "targeted", "mode": "eval"})
    for i, src in enumerate(VERSIONED):
        if i % ctx.n != ctx.k:
            continue
        for v in ((3, 8), (3, 10), (3, 11)):
            check(rec, {"src": src + "\n", "stream": "version-check", "py_version": list(v)})
            check(rec, {"src": "a = 1\n\n" + src + "\nb = 2\n", "stream": "version-check", "py_version": list(v), "wrap": ["statements-before"]})

    def trailing_blanks(rnd, body):
        """blanks at the end of physical lines (not after a continuation backslash): part of the line a report quotes"""
        out = []
        for ln in body.split("\n"):
            if ln and not ln.endswith("\\") and rnd.random() < 0.4:
                ln += rnd.choice([" ", "  ", "\t", " \t", "\f"])
            out.append(ln)
        return "\n".join(out)

    def targeted(rnd):
        err = TARGETED[rnd.randrange(len(TARGETED))]
        body, feats = wrap(rnd, err)
        if rnd.random() < 0.25 and len(body) < 2000:
            body, feats = trailing_blanks(rnd, body), [*feats, "trailing-blanks"]
        check(rec, {"src": body, "stream": "targeted-wrapped", "wrap": feats, "file": rnd.random() < 0.25})

    drive(st.randoms(use_true_random=False), targeted, ctx.budget(6000, 120000), ctx.hseed("targeted"))

    MACRO_LEADS = ["(a g!(x\n y\n z) b)\n", "r = f!(p,\n  [q,\n   r])\n", "with! c:\n    '''t\n    u'''\n    v\n"]

    def multiline_tokens(rnd):
        # G10: tokens spanning several physical lines (triple-quoted strings / f-strings with fields on later lines, debug
        # fields laid out over lines) inside or before the faulty code; call macros with multi-line arguments
        from ..gen import mltok

        src, feats = mltok.program(rnd)
        if rnd.random() < 0.2:
            src = rnd.choice(MACRO_LEADS) + src
        check(rec, {"src": src, "stream": "g10-multi-line-tokens", "wrap": feats, "file": rnd.random() < 0.3})

    drive(st.randoms(use_true_random=False), multiline_tokens, ctx.budget(3000, 60000), ctx.hseed("mltok"))

    def mut(rnd):
        r = rnd.random()
        if r < 0.35 and corp:
            base = corp[rnd.randrange(len(corp))]
        elif r < 0.55:
            base = seeds[rnd.randrange(len(seeds))]
        else:
            base = PyGen(rnd, nonascii=rnd.random() < 0.2).program(3)
        src, op = mutate.mutate(rnd, base, xonsh=r >= 0.35 and r < 0.55, nasty=rnd.random() < 0.15)
        check(rec, {"src": src, "stream": "mutation", "file": rnd.random() < 0.15})

    drive(st.randoms(use_true_random=False), mut, ctx.budget(12000, 300000), ctx.hseed("mut"))

    def g1(rnd):
        check(rec, {"src": PyGen(rnd).program(4), "stream": "g1"})

    drive(st.randoms(use_true_random=False), g1, ctx.budget(3000, 40000), ctx.hseed("g1"))
