"""C05 -- xonsh expression sugar desugars identically in every expression context."""

from __future__ import annotations

import ast

from hypothesis import strategies as st

from .. import known
from ..common import ast_depth, astdiff, cpy, diff_signature, outcome
from ..gen import corpus, xonsh
from ..gen.pysrc import PyGen
from ..hyp import drive
from .c10 import strip_empty_spec_constants

META = {
    "level": "exploration",
    "rule": (
        "pairs (context, construct): context = a G1 program or corpus statement with one Load-position hole chosen on CPython's tree "
        "(atom-level holes: Name/number Constant nodes; full-expression holes: call args, subscripts, RHS, conditions, elements, defaults, "
        "f-string fields excluded); construct = generated sugar ($NAME, ${expr} incl. nested, the four subprocess forms with simple words / "
        "$NAME / nested forms, backtick search paths with prefixes, p/pr/pf strings in every case/order, help/superhelp/chains, && and ||) "
        "with its translation computed recursively by the generator.  Excluded as quantified: holes in assignment/augassign/annotation/del "
        "targets, right after a decorator '@', under match patterns.  Oracle: astdiff(ast.parse(ctx[translation]), parse(ctx[sugar]), "
        "positions=False) is empty AND the node at the hole has the expected class and spans exactly the construct's text.  Store positions: "
        "$NAME/${expr} in 15 target templates vs the written-out translation.  non-trivial = context tree depth >= 3 above the hole; "
        "distinct by (context text, hole, construct)."
    ),
    "assumptions": ["the translation table is the one documented by tests/data/exprs, tests/data/stmts and the builders in subheader.py", "CPython decides whether ctx[translation] is valid and which node sits at the hole"],
}

FULL_EXPR_FIELDS = {
    ("Call", "args"), ("Assign", "value"), ("Return", "value"), ("If", "test"), ("While", "test"), ("Expr", "value"), ("Subscript", "slice"), ("keyword", "value"),
    ("List", "elts"), ("Tuple", "elts"), ("Set", "elts"), ("Dict", "values"), ("Dict", "keys"), ("Assert", "test"), ("Assert", "msg"), ("IfExp", "test"), ("IfExp", "orelse"),
    ("Lambda", "body"), ("comprehension", "ifs"), ("ListComp", "elt"), ("GeneratorExp", "elt"), ("AugAssign", "value"), ("AnnAssign", "value"), ("arguments", "defaults"),
    ("arguments", "kw_defaults"), ("Raise", "exc"), ("For", "iter"), ("withitem", "context_expr"), ("NamedExpr", "value"), ("Starred", "value"), ("Yield", "value"), ("Await", "value"),
    ("DictComp", "key"), ("DictComp", "value"), ("SetComp", "elt"), ("Slice", "lower"), ("Slice", "upper"), ("comprehension", "iter"), ("Match", "subject"), ("match_case", "guard"),
    ("ClassDef", "bases"), ("FormattedValue", "value"), ("FunctionDef", "returns"), ("arg", "annotation"), ("Compare", "comparators"), ("BoolOp", "values"), ("BinOp", "right"), ("UnaryOp", "operand"),
}
# (BinOp/Compare/BoolOp/UnaryOp operands only admit atom-level constructs without parentheses; '&&' forms are parenthesised there)
PAREN_ONLY = {("Compare", "comparators"), ("BoolOp", "values"), ("BinOp", "right"), ("UnaryOp", "operand"), ("Starred", "value"), ("Await", "value"), ("IfExp", "test"), ("comprehension", "ifs"), ("comprehension", "iter"), ("Slice", "lower"), ("Slice", "upper"), ("arg", "annotation"), ("FunctionDef", "returns")}


def holes(tree, src):
    """[(node, kind, (parent class, field), depth)] for Load-position holes, computed on CPython's tree"""
    excluded = set()
    for n in ast.walk(tree):
        tg = []
        if isinstance(n, ast.Assign):
            tg = n.targets
        elif isinstance(n, (ast.AugAssign, ast.AnnAssign)):
            tg = [n.target]
            if isinstance(n, ast.AnnAssign):
                tg.append(n.annotation)
        elif isinstance(n, ast.Delete):
            tg = n.targets
        elif isinstance(n, ast.arg) and n.annotation is not None:
            tg = [n.annotation]
        elif isinstance(n, (ast.FunctionDef, ast.AsyncFunctionDef)) and n.returns is not None:
            tg = [n.returns]
        for t in tg:
            for m in ast.walk(t):
                excluded.add(id(m))
        if isinstance(n, (ast.FunctionDef, ast.AsyncFunctionDef, ast.ClassDef)):
            for d in n.decorator_list:
                for m in ast.walk(d):
                    if (getattr(m, "lineno", None), getattr(m, "col_offset", None)) == (d.lineno, d.col_offset):
                        excluded.add(id(m))
        if isinstance(n, ast.pattern):
            for m in ast.walk(n):
                excluded.add(id(m))
        if isinstance(n, (ast.TypeAlias,)) or isinstance(n, ast.type_param):
            for m in ast.walk(n):
                excluded.add(id(m))
    in_target = set()
    for n in ast.walk(tree):
        tg = []
        if isinstance(n, (ast.For, ast.AsyncFor, ast.comprehension)):
            tg = [n.target]
        elif isinstance(n, ast.withitem) and n.optional_vars is not None:
            tg = [n.optional_vars]
        for t in tg:
            for m in ast.walk(t):
                in_target.add(id(m))
    out = []
    stack = [(tree, 0)]
    while stack:
        parent, depth = stack.pop()
        for f, v in ast.iter_fields(parent):
            for c in v if isinstance(v, list) else [v]:
                if not isinstance(c, ast.AST):
                    continue
                stack.append((c, depth + 1))
                if not isinstance(c, ast.expr) or id(c) in excluded:
                    continue
                if not isinstance(getattr(c, "ctx", None) or ast.Load(), ast.Load):
                    continue
                if c.lineno != c.end_lineno:
                    continue
                pf = (type(parent).__name__, f)
                if isinstance(c, ast.Name) or (isinstance(c, ast.Constant) and isinstance(c.value, (int, float)) and not isinstance(c.value, bool)):
                    out.append((c, "atom", pf + (id(c) in in_target,), depth))
                if pf in FULL_EXPR_FIELDS and not isinstance(c, (ast.Starred, ast.Slice)):
                    out.append((c, "paren" if pf in PAREN_ONLY else "full", pf + (id(c) in in_target,), depth))
    return out


def line_offsets(src):
    offs = [0]
    for ln in src.split("\n"):
        offs.append(offs[-1] + len(ln) + 1)
    return offs


def check(rec, case):
    if case.get("store"):
        return check_store(rec, case)
    ctx_src, a, b = case["ctx"], case["a"], case["b"]
    text, trans, cls = case["text"], case["trans"], case["cls"]
    wrap = case.get("wrap", False)
    pre = " " if a > 0 and ctx_src[a - 1] == "@" else ""
    if "\n=col" in text:
        text = xonsh.expand_columns(text, a - (ctx_src.rfind("\n", 0, a) + 1) + len(pre) + (1 if wrap else 0))
    ins_s = f"({text})" if wrap else text
    ins_t = f"({trans})" if wrap else trans
    s_src = ctx_src[:a] + pre + ins_s + ctx_src[b:]
    t_src = ctx_src[:a] + pre + ins_t + ctx_src[b:]
    pf = tuple(case.get("pf", ("?", "?")))
    c = cpy(t_src, "exec")
    if c.kind != "tree":
        rec.exclude("cpython-rejects-translation-in-context")
        return
    # the node CPython builds at the hole must be an expression of the translation's class
    start_off = a + len(pre) + (1 if wrap else 0)
    line = ctx_src.count("\n", 0, a) + 1
    col = start_off - (ctx_src.rfind("\n", 0, a) + 1)
    at_hole = [n for n in ast.walk(c.tree) if isinstance(n, ast.expr) and (n.lineno, n.col_offset) == (line, col) and type(n).__name__ == cls]
    if not at_hole:
        rec.exclude("translation-reread-differently-by-cpython")
        return
    nt = case.get("depth", 0) >= 3
    rec.case(case, nt, labels=(f"kind:{case.get('kind')}", f"field:{pf[0]}.{pf[1]}", f"cell:{case.get('kind')}|{pf[0]}.{pf[1]}", f"stream:{case.get('stream')}"), key=(ctx_src, a, text))
    o = outcome(s_src, "exec")
    if o.kind != "tree":
        rec.fail(dict(case, src=s_src), f"rejected:{case.get('kind')}:{o.canon()[0]}:{o.etype}", {"outcome": [str(x)[:160] for x in o.canon()], "src": s_src[:300]})
        return
    d = astdiff(strip_empty_spec_constants(c.tree), strip_empty_spec_constants(o.tree), positions=False)
    if d is not None:
        rec.fail(dict(case, src=s_src), f"tree:{case.get('kind')}:{diff_signature(d)}", {"path": d[0], "kind": d[1], "expected": d[2], "got": d[3], "src": s_src[:300]})
        return
    # span: a node of the expected class starts at the hole and covers exactly the construct's text
    end_line = line + text.count("\n")
    end_col = col + len(text) if "\n" not in text else len(text) - text.rfind("\n") - 1
    found = [n for n in ast.walk(o.tree) if type(n).__name__ == cls and (getattr(n, "lineno", None), getattr(n, "col_offset", None)) == (line, col)]
    if not any((n.end_lineno, n.end_col_offset) == (end_line, end_col) for n in found):
        rec.fail(dict(case, src=s_src), f"span:{case.get('kind')}", {"expected": [line, col, end_line, end_col], "found": [(n.lineno, n.col_offset, n.end_lineno, n.end_col_offset) for n in found][:3], "src": s_src[:300]})


def check_store(rec, case):
    tmpl, text, trans = case["tmpl"], case["text"], case["trans"]
    pre, post = (part.replace("{{", "{").replace("}}", "}") for part in tmpl.split("{T}"))
    s_src = pre + text + post
    t_src = pre + trans + post
    c = cpy(t_src, "exec")
    if c.kind != "tree":
        rec.exclude("cpython-rejects-store-translation")
        return
    rec.case(case, True, labels=("store", f"kind:{case.get('kind')}"), key=(tmpl, text))
    o = outcome(s_src, "exec")
    if o.kind != "tree":
        rec.fail(dict(case, src=s_src), f"store-rejected:{case.get('kind')}:{o.etype}", {"outcome": [str(x)[:160] for x in o.canon()], "src": s_src})
        return
    d = astdiff(c.tree, o.tree, positions=False)
    if d is not None:
        rec.fail(dict(case, src=s_src), f"store-tree:{case.get('kind')}:{diff_signature(d)}", {"path": d[0], "kind": d[1], "expected": d[2], "got": d[3], "src": s_src})


SHRINK_FIELDS = ()


def search(rec, ctx):
    crng = ctx.rng("corpus")
    corp = [s for _, s in corpus.sample_statements(crng, 40 if ctx.thorough else 5, per_file=40 if ctx.thorough else 25) if len(s) < 1500 and s.isascii()]

    def pair(rnd):
        if corp and rnd.random() < 0.5:
            src, stream = corp[rnd.randrange(len(corp))], "corpus"
        else:
            src, stream = PyGen(rnd).program(3), "g1"
        c = cpy(src)
        if c.kind != "tree":
            rec.exclude("context-not-valid")
            return
        hs = holes(c.tree, src)
        if not hs:
            rec.exclude("context-without-hole")
            return
        offs = line_offsets(src)
        for _ in range(3):
            node, kind, pf, depth = hs[rnd.randrange(len(hs))]
            sg = xonsh.sugar(rnd, multiline=True)
            wrap = False
            if sg.level == "bool" and kind != "full":
                wrap = True
            a = offs[node.lineno - 1] + node.col_offset
            b = offs[node.end_lineno - 1] + node.end_col_offset
            check(rec, {"ctx": src, "a": a, "b": b, "text": sg.text, "trans": sg.trans, "cls": sg.cls, "kind": sg.kind, "wrap": wrap, "pf": list(pf[:2]), "in_target": pf[2], "depth": depth, "stream": stream})

    drive(st.randoms(use_true_random=False), pair, ctx.budget(16000, 150000), ctx.hseed("pairs"))

    FCTX = ["y = f'{x}'\n", "print(f'a {x!r:>5} b', x)\n", 'z = f"""{x}\n{y:{x}}"""\n', "w = rf'\\d{x}' + f'{x!s}'\n", "def g(): return f'{x + 1}{f(x)}'\n"]

    def fctx(rnd):
        src = FCTX[rnd.randrange(len(FCTX))]
        c = cpy(src)
        hs = [h for h in holes(c.tree, src)]
        offs = line_offsets(src)
        node, kind, pf, depth = hs[rnd.randrange(len(hs))]
        sg = xonsh.sugar(rnd)
        a = offs[node.lineno - 1] + node.col_offset
        b = offs[node.end_lineno - 1] + node.end_col_offset
        check(rec, {"ctx": src, "a": a, "b": b, "text": sg.text, "trans": sg.trans, "cls": sg.cls, "kind": sg.kind, "wrap": sg.level == "bool" and kind != "full", "pf": list(pf[:2]), "in_target": pf[2], "depth": depth + 3, "stream": "fstring-context"})

    drive(st.randoms(use_true_random=False), fctx, ctx.budget(2000, 20000), ctx.hseed("fctx"))

    # the construct as the very last thing of the input, with and without a final line end (and after other layouts
    # of the end of input): statement, last operand, last argument, last line of a block
    EOF_CTX = ["HOLE", "x = 1\nHOLE", "x = HOLE", "if a:\n    HOLE", "if a:\n    b\nHOLE", "y = 2 + HOLE", "def f():\n    return HOLE", "for i in j:\n    k = HOLE", "x = 1; HOLE", "try:\n    a\nfinally:\n    HOLE", "with a:\n    b\n    HOLE"]
    EOF_TAILS = ["", "\n", " ", "  # c", "\n\n", " \n", "\n# c", "\n    ", ";", " ;\n"]

    def at_eof(rnd):
        c = rnd.choice(EOF_CTX)
        tail = rnd.choice(EOF_TAILS)
        sg = xonsh.sugar(rnd, multiline=True)
        src = c + tail
        a = src.index("HOLE")
        check(rec, {"ctx": src, "a": a, "b": a + 4, "text": sg.text, "trans": sg.trans, "cls": sg.cls, "kind": sg.kind, "wrap": False, "pf": ["Eof", c.replace("\n", "/")[:14]], "in_target": False, "depth": 0, "stream": "at-end-of-input"})

    drive(st.randoms(use_true_random=False), at_eof, ctx.budget(3000, 30000), ctx.hseed("eof"))

    def store(rnd):
        tmpl = xonsh.STORE_TEMPLATES[rnd.randrange(len(xonsh.STORE_TEMPLATES))]
        for _ in range(20):
            sg = xonsh.sugar(rnd, allow_bool=False)
            if sg.kind in ("$NAME", "${expr}"):
                break
        else:
            return
        check(rec, {"store": True, "tmpl": tmpl, "text": sg.text, "trans": sg.trans, "kind": sg.kind})

    drive(st.randoms(use_true_random=False), store, ctx.budget(4000, 30000), ctx.hseed("store"))


@known.matcher
def sugar_inside_binding_target(case, signature, detail):
    """D43: the construct is the base of an attribute/subscript inside a for / with-as / comprehension target"""
    return bool(case.get("in_target")) and signature.startswith("rejected:")
