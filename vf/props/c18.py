"""C18 -- parsing work grows at most linearly with input size and nesting depth.

Work is measured with deterministic counters (token reads, peeks and backtracking resets of a
counting Tokenizer subclass handed to the public parser constructor) -- never with wall-clock time.
"""

from __future__ import annotations

import io

from hypothesis import strategies as st

from .. import known
from ..common import SoftTimeout, repo_modules, watchdog
from ..hyp import drive

META = {
    "level": "exploration",
    "rule": (
        "families: a pattern = (statement kind, unit of 1-3 nesting wrappers, core, optional invalid tail) instantiated at nesting "
        "n in {4,8,16,32} (thorough: 64) plus breadth families (chains/lists of n items); ~75 fixed families derived from the "
        "grammar's recursion structure + Hypothesis-drawn wrapper mixtures (valid and invalid).  Oracle: work(n) <= 3000*tokens(n) "
        "+ 20000 for every n, and work(2n)/work(n) <= 2.6 at the two largest n; a family exceeding the 3e6-operation cap is cut off "
        "and reported.  Runs of 64..512 (1024) compound statements of 9 kinds are measured the same way, and 'late' families put a nest of "
        "depth 4..12 (16) after a prefix of >= 10000 tokens and bound the work the nest ADDS (total minus the same input at depth 1) by the same per-token "
        "bound.  Every fixed family is also measured with verbose=True (output discarded; sizes up to 16 / 64): tracing must not change the work.  "
        "work = getnext+peek+reset counts + every element handed out by the tokenizer's token cache (index, slice, iteration, copy: a "
        "counting list installed in the Tokenizer subclass).  non-trivial = largest instance has >= 60 tokens and nesting >= 16 (or >= 64 "
        "items for breadth families); distinct by pattern."
    ),
    "assumptions": [
        "work is proxied by tokenizer-level counters (every rule invocation that does anything touches the tokenizer) plus reads of the token cache; work done inside other C-level primitives (dict resizing, string joins) is not counted",
        "harness recursion limit 20000: families whose largest instance overflows even that are reported as inconclusive",
    ],
}

K_PER_TOKEN = 3000
K0 = 20000
RATIO = 2.6
CAP = 3_000_000


class Cap(Exception):
    pass


class CountingList(list):
    """the tokenizer's token cache: every element handed out (index, slice, iteration, copy, search) is counted"""

    __slots__ = ("reads",)

    def __init__(self, *a):
        super().__init__(*a)
        self.reads = 0

    def __getitem__(self, i):
        r = list.__getitem__(self, i)
        self.reads += len(r) if type(i) is slice else 1
        return r

    def __iter__(self):
        self.reads += len(self)
        return list.__iter__(self)

    def __reversed__(self):
        self.reads += len(self)
        return list.__reversed__(self)

    def __contains__(self, x):
        self.reads += len(self)
        return list.__contains__(self, x)

    def copy(self):
        self.reads += len(self)
        return list.copy(self)

    def index(self, *a):
        self.reads += len(self)
        return list.index(self, *a)

    def __add__(self, other):
        self.reads += len(self)
        return list.__add__(self, other)


_CT = None


def counting_tokenizer():
    global _CT
    if _CT is None:
        Tokenizer = repo_modules()["TZ"].Tokenizer

        class CT(Tokenizer):
            cap = CAP

            def __init__(self, *a, **k):
                super().__init__(*a, **k)
                self.n_get = self.n_peek = self.n_reset = 0
                self._tokens = CountingList(self._tokens)

            def work(self):
                reads = self._tokens.reads if isinstance(self._tokens, CountingList) else 0
                return self.n_get + self.n_peek + self.n_reset + reads

            def getnext(self):
                self.n_get += 1
                if self.work() > self.cap:
                    raise Cap()
                return super().getnext()

            def peek(self):
                self.n_peek += 1
                return super().peek()

            def reset(self, index):
                self.n_reset += 1
                return super().reset(index)

        _CT = CT
    return _CT


class _Discard(io.TextIOBase):
    def write(self, s):
        return len(s)


def measure(src: str, cap: int = CAP, verbose: bool = False):
    """(work, tokens, verdict) ; verdict in ok/syn/tok/CAP/recursion/hang/<Exception>"""
    import contextlib

    m = repo_modules()
    with contextlib.redirect_stdout(_Discard()):
        tok = counting_tokenizer()(m["T"].generate_tokens(io.StringIO(src).readline), verbose=verbose)
        tok.cap = cap
        p = m["P"].XonshParser(tok, verbose=verbose)
    try:
        with watchdog(120), contextlib.redirect_stdout(_Discard()):
            p.parse("file")
        v = "ok"
    except Cap:
        return (cap, len(tok._tokens), "CAP")
    except SoftTimeout:
        return (tok.work(), len(tok._tokens), "hang")
    except SyntaxError:
        v = "syn"
    except m["T"].TokenError:
        v = "tok"
    except RecursionError:
        return (0, len(tok._tokens), "recursion")
    except Exception as e:  # noqa: BLE001  (C03's business; still measure)
        v = type(e).__name__
    return (tok.work(), len(tok._tokens), v)


# ---- pattern language ---------------------------------------------------------------------------
W = [
    ("(", ")"), ("[", "]"), ("{", "}"), ("{1:", "}"), ("f(", ")"), ("a[", "]"), ("lambda: ", ""), ("not ", ""), ("-", ""), ("${", "}"),
    ("$(ls ", ")"), ("$(echo @(", ") )"), ("![ls @$(", ")]"), ("(yield ", ")"), ("[x for x in ", "]"), ("{**", "}"), ("f(*", ")"),
    ("f(k=", ")"), ("x if ", " else y"), ("a[1:", "]"), ("(a, ", ")"), ("[*", "]"), ("f'{", "}'"), ("(x := ", ")"), ("f(a)(", ")"),
    ("`a` + ", ""), ("g!(", ")"), ("await ", ""), ("{a: ", "}"), ("[a, ", "]"), ("f(a, ", ")"), ("a.b(", ").c"), ("(*", ",)"), ("{x for x in ", "}"),
    ("![echo ", "]"), ("$[echo $(", ")]"), ("f'{a:{", "}}'"), ("a and ", ""), ("a + ", ""), ("a < ", ""),
]
PW = [("[", "]"), ("(", ")"), ("{1:", "}"), ("A(", ")"), ("A(k=", ")"), ("(a, ", ")"), ("[*_, ", "]"), ("1 | ", ""), ("(", " as z)"), ("[a, ", "]"), ("A(a, ", ")")]
TW = [("(", ")"), ("[", "]"), ("(a, ", ")"), ("[*", "]"), ("a[", "]"), ("f(", ").b"), ("(", ",)"), ("[a, ", "]")]
TAILS = ["", " 1", " €", " =", " +", " if", ")", " for", " :", " a b", " ==", ",,", " lambda", " $", " ?"]
KINDS = ["expr", "expr", "expr", "stmt", "target", "del", "for", "match", "with", "deco", "block", "default", "annotation", "return", "subproc"]
BRACKET_CHARS = set("([{")


def build(kind, unit, core, tail, n):
    o = "".join(u[0] for u in unit)
    c = "".join(u[1] for u in reversed(unit))
    body = o * n + core + tail + c * n
    if kind == "expr":
        return "x = " + body + "\n"
    if kind == "stmt":
        return body + "\n"
    if kind == "target":
        return body + " = 1\n"
    if kind == "del":
        return "del " + body + "\n"
    if kind == "for":
        return "for " + body + " in y: pass\n"
    if kind == "match":
        return "match v:\n case " + body + ": pass\n"
    if kind == "with":
        return "with " + body + " as z: pass\n"
    if kind == "deco":
        return "@" + body + "\ndef f(): pass\n"
    if kind == "default":
        return "def f(a=" + body + "): pass\n"
    if kind == "annotation":
        return "x: " + body + " = 1\n"
    if kind == "return":
        return "def f():\n    return " + body + "\n"
    if kind == "subproc":
        return "$(echo @(" + body + "))\n"
    if kind == "block":
        return "".join(" " * i + "if a:\n" for i in range(n)) + " " * n + "x = " + o + core + tail + c + "\n"
    raise ValueError(kind)


FIXED = {
    # breadth
    "dict_items": lambda n: "{" + ",".join(["a:b"] * n) + "}\n",
    "list_items": lambda n: "[" + ",".join(["a"] * n) + "]\n",
    "call_args": lambda n: "f(" + ",".join(["a"] * n) + ")\n",
    "call_kwargs": lambda n: "f(" + ",".join(f"k{i}=1" for i in range(n)) + ")\n",
    "binop_chain": lambda n: "x = " + " + ".join(["a"] * n) + "\n",
    "boolop_chain": lambda n: "x = " + " and ".join(["a"] * n) + "\n",
    "compare_chain": lambda n: "x = " + " < ".join(["a"] * n) + "\n",
    "attr_chain": lambda n: "a" + ".b" * n + "\n",
    "call_chain": lambda n: "a" + "(0)" * n + "\n",
    "subscript_chain": lambda n: "a" + "[0]" * n + "\n",
    "statements": lambda n: "a = 1\n" * n,
    # runs of compound statements (every block ends in NEWLINE + DEDENT: the nodes' end positions are looked up behind them)
    "if_blocks": lambda n: "if a:\n    b = 1\n" * n,
    "def_blocks": lambda n: "def f(a):\n    return a\n" * n,
    "for_else_blocks": lambda n: "for i in j:\n    k\nelse:\n    m\n" * n,
    "with_blocks": lambda n: "with a as b:\n    c\n" * n,
    "try_blocks": lambda n: "try:\n    a\nexcept E:\n    b\nfinally:\n    c\n" * n,
    "class_blocks": lambda n: "class A(B):\n    x = 1\n    def m(self): pass\n" * n,
    "while_nested_blocks": lambda n: "while a:\n    if b:\n        c\n    d\n" * n,
    "match_blocks": lambda n: "match v:\n    case 1:\n        a\n    case _:\n        b\n" * n,
    "with_macro_blocks": lambda n: "with! a:\n    b c\nd = 1\n" * n,
    "semicolons": lambda n: ";".join(["a = 1"] * n) + "\n",
    "string_pieces": lambda n: "x = " + " ".join(["'a'"] * n) + "\n",
    "assign_chain": lambda n: " = ".join(["a"] * n) + " = 1\n",
    "target_tuple": lambda n: ", ".join(["a"] * n) + " = x\n",
    "lambda_params": lambda n: "lambda " + ",".join(f"a{i}" for i in range(n)) + ": 1\n",
    "def_params": lambda n: "def f(" + ",".join(f"a{i}=1" for i in range(n)) + "): pass\n",
    "type_params": lambda n: "def f[" + ",".join(f"T{i}" for i in range(n)) + "](): pass\n",
    "decorators": lambda n: "@a\n" * n + "def f(): pass\n",
    "elif": lambda n: "if a:\n pass\n" + "elif b:\n pass\n" * n,
    "cases": lambda n: "match x:\n" + " case 1: pass\n" * n,
    "match_or": lambda n: "match x:\n case " + "|".join(["1"] * n) + ": pass\n",
    "except_clauses": lambda n: "try:\n pass\n" + "except A: pass\n" * n,
    "with_items": lambda n: "with " + ", ".join(["a as b"] * n) + ": pass\n",
    "import_names": lambda n: "from a import " + ", ".join(f"b{i}" for i in range(n)) + "\n",
    "global_names": lambda n: "global " + ", ".join(f"b{i}" for i in range(n)) + "\n",
    "star_args": lambda n: "f(" + ",".join(["*a"] * n) + ")\n",
    "subproc_words": lambda n: "$(echo " + " ".join(["a"] * n) + ")\n",
    "subproc_glued": lambda n: "$(echo " + "-".join(["a"] * n) + ")\n",
    "subproc_env": lambda n: "$(echo " + " ".join(["$A"] * n) + ")\n",
    "pipes": lambda n: "![" + " | ".join(["ls"] * n) + "]\n",
    "macro_args": lambda n: "f!(" + ", ".join(["a b"] * n) + ")\n",
    "fstring_fields": lambda n: "f'" + "{a}" * n + "'\n",
    "fstr_spec": lambda n: "f'{a:" + ">" * n + "}'\n",
    "comp_fors": lambda n: "[x " + "for x in y " * n + "]\n",
    "comp_ifs": lambda n: "[x for x in y " + "if x " * n + "]\n",
    "slices_tuple": lambda n: "a[" + ",".join(["1:2"] * n) + "]\n",
    "help_chain": lambda n: "a?" + ".b?" * n + "\n",
    "and_or_xonsh": lambda n: " && ".join(["a"] * n) + "\n",
    # nesting
    "match_class": lambda n: "match x:\n case " + "A(" * n + "a" + ")" * n + ": pass\n",
    "match_map": lambda n: "match x:\n case " + "{1:" * n + "a" + "}" * n + ": pass\n",
    "match_group": lambda n: "match x:\n case " + "(" * n + "a" + ")" * n + ": pass\n",
    "match_seq": lambda n: "match x:\n case " + "[" * n + "a" + "]" * n + ": pass\n",
    "lambda_default": lambda n: "lambda a=" * n + "1" + ": 1" * n + "\n",
    "slices": lambda n: "a[" * n + "1:2" + "]" * n + "\n",
    "paren_target": lambda n: "(" * n + "a" + ")" * n + " = 1\n",
    "list_target": lambda n: "[" * n + "a" + "]" * n + " = 1\n",
    "for_target": lambda n: "for " + "(" * n + "a," + ")" * n + " in x: pass\n",
    "def_paren_params_bad": lambda n: "def f(" + "(a, " * n + "b" + ")" * n + "): pass\n",
    "def_paren_params_bad2": lambda n: "def f(" + "(" * n + "a" + ", b)" * n + "): pass\n",
    "lambda_paren_params_bad": lambda n: "x = lambda " + "(a, " * n + "b" + ")" * n + ": 0\n",
    "subproc_groups_bad": lambda n: "$[echo " + "( [a] " * n + "]" + " )" * n + "\n",
    "subproc_groups": lambda n: "$[echo " + "(a " * n + ")" * n + "]\n",
    "del_paren": lambda n: "del " + "(" * n + "a" + ")" * n + "\n",
    "del_bracket": lambda n: "del " + "[" * n + "a" + "]" * n + "\n",
    "del_paren_attr": lambda n: "del " + "(" * n + "a.b" + ")" * n + ", c\n",
    "del_nested": lambda n: "del " + "(" * n + "a," + ")" * n + "\n",
    "with_nested_paren": lambda n: "with " + "(" * n + "a" + ")" * n + ": pass\n",
    "annot": lambda n: "x: " + "A[" * n + "int" + "]" * n + " = 1\n",
    "nested_def": lambda n: "".join(" " * i + "def f():\n" for i in range(n)) + " " * n + "pass\n",
    "nested_class": lambda n: "".join(" " * i + "class A:\n" for i in range(n)) + " " * n + "pass\n",
    "nested_try": lambda n: "".join(" " * i + "try:\n" for i in range(n)) + " " * n + "pass\n" + "".join(" " * i + "finally:\n" + " " * (i + 1) + "pass\n" for i in range(n - 1, -1, -1)),
    "nested_try_except": lambda n: "".join(" " * i + "try:\n" for i in range(n)) + " " * n + "pass\n" + "".join(" " * i + "except E:\n" + " " * (i + 1) + "pass\n" for i in range(n - 1, -1, -1)),
    "nested_try_except_body": lambda n: "".join(" " * i + "try:\n" + " " * (i + 1) + "a = 1\n" for i in range(n)) + "".join(" " * i + "except E as e:\n" + " " * (i + 1) + "b = 2\n" + " " * i + "else:\n" + " " * (i + 1) + "c\n" for i in range(n - 1, -1, -1)),
    "nested_if_else": lambda n: "".join(" " * i + "if a:\n" for i in range(n)) + " " * n + "pass\n" + "".join(" " * i + "else:\n" + " " * (i + 1) + "pass\n" for i in range(n - 1, -1, -1)),
    "nested_for_else": lambda n: "".join(" " * i + "for x in y:\n" for i in range(n)) + " " * n + "pass\n" + "".join(" " * i + "else:\n" + " " * (i + 1) + "pass\n" for i in range(n - 1, -1, -1)),
    "nested_while_with": lambda n: "".join(" " * (2 * i) + "while a:\n" + " " * (2 * i + 1) + "with b as c:\n" for i in range(n)) + " " * (2 * n) + "pass\n",
    "nested_match": lambda n: "".join(" " * (2 * i) + "match v:\n" + " " * (2 * i + 1) + "case [a, *_]:\n" for i in range(n)) + " " * (2 * n) + "pass\n",
    "nested_async": lambda n: "async def f():\n" + "".join(" " * (i + 1) + "async with a as b:\n" for i in range(n)) + " " * (n + 1) + "await c\n",
    # ... and the same nests with something wrong inside or after them (second, diagnostic pass over the whole nest)
    "nested_try_except_bad_inside": lambda n: "".join(" " * i + "try:\n" for i in range(n)) + " " * n + "x = = 1\n" + "".join(" " * i + "except E:\n" + " " * (i + 1) + "pass\n" for i in range(n - 1, -1, -1)),
    "nested_try_except_bad_after": lambda n: "".join(" " * i + "try:\n" for i in range(n)) + " " * n + "pass\n" + "".join(" " * i + "except E:\n" + " " * (i + 1) + "pass\n" for i in range(n - 1, -1, -1)) + "x = = 1\n",
    "nested_try_except_bad_handler": lambda n: "".join(" " * i + "try:\n" + " " * (i + 1) + "a\n" for i in range(n)) + "".join(" " * i + "except E:\n" + " " * (i + 1) + ("b c\n" if i == 0 else "b\n") for i in range(n - 1, -1, -1)),
    "nested_if_else_bad_after": lambda n: "".join(" " * i + "if a:\n" for i in range(n)) + " " * n + "pass\n" + "".join(" " * i + "else:\n" + " " * (i + 1) + "pass\n" for i in range(n - 1, -1, -1)) + "f(a b)\n",
    "nested_for_else_bad_inside": lambda n: "".join(" " * i + "for x in y:\n" for i in range(n)) + " " * n + "x y\n" + "".join(" " * i + "else:\n" + " " * (i + 1) + "pass\n" for i in range(n - 1, -1, -1)),
    "nested_def_bad_inside": lambda n: "".join(" " * i + "def f(a):\n" for i in range(n)) + " " * n + "return = 1\n",
    "nested_class_bad_after": lambda n: "".join(" " * i + "class A:\n" for i in range(n)) + " " * n + "pass\nimport\n",
    "nested_match_bad_inside": lambda n: "".join(" " * (2 * i) + "match v:\n" + " " * (2 * i + 1) + "case [a, *_]:\n" for i in range(n)) + " " * (2 * n) + "a b\n",
    "nested_with_bad_inside": lambda n: "".join(" " * i + "with a as b:\n" for i in range(n)) + " " * n + "del 1\n",
    "nested_with_macro": lambda n: "".join(" " * i + "if a:\n" for i in range(n)) + " " * n + "with! a:\n" + " " * (n + 1) + "b c\n",
    "genexp_call": lambda n: "f(" * n + "x for x in y" + ")" * n + "\n",
    "walrus": lambda n: "(a:=" * n + "1" + ")" * n + "\n",
    "await": lambda n: "await " * n + "a\n",
    "proc_group": lambda n: "![" + "(" * n + "ls" + ")" * n + "]\n",
    "proc_inject": lambda n: "$(" + "@$(ls " * n + ")" * n + ")\n",
    "proc_py": lambda n: "$(ls " + "@($(ls " * n + "))" * n + ")\n",
    "macro_nested": lambda n: "f!(" * n + "a" + ")" * n + "\n",
    "fstr_nested": lambda n: "f'{" * n + "a" + "}'" * n + "\n",
    "env_nested": lambda n: "${" * n + "a" + "}" * n + "\n",
    "ifexp_nested": lambda n: "x = " + "a if b else " * n + "c\n",
    "not_nested": lambda n: "x = " + "not " * n + "a\n",
    "unary_nested": lambda n: "x = " + "-" * n + "a\n",
    "power_nested": lambda n: "x = " + "a ** " * n + "b\n",
    # invalid variants (second, diagnostic pass)
    "if_bad_colon": lambda n: "".join(" " * i + "if a:\n" for i in range(n)) + " " * n + "if a\n",
    "call_bad_kw": lambda n: "f(" * n + "a=1, b" + ")" * n + "\n",
    "dict_bad": lambda n: "{1:" * n + "1 1" + "}" * n + "\n",
    "paren_bad": lambda n: "(" * n + "1 1" + ")" * n + "\n",
    "list_bad": lambda n: "[" * n + "1 1" + "]" * n + "\n",
    "set_bad": lambda n: "{" * n + "A €" + "}" * n + "\n",
    "lambda_bad": lambda n: "lambda: " * n + "1 1\n",
    "comp_bad": lambda n: "[" * n + "x" + " for x in y y]" * n + "\n",
    "print_legacy": lambda n: "print " * n + "a\n",
    "assign_bad_target": lambda n: "(" * n + "a+1" + ")" * n + " = 1\n",
    "tuple_bad_target": lambda n: "(" * n + "a, 1," + ")" * n + " = 1\n",
    "unclosed_paren": lambda n: "x = " + "(" * n + "a\n",
    "unclosed_subproc": lambda n: "$(" * n + "ls\n",
    "subproc_wrong_closer": lambda n: "$(a " * n + "]" + ")" * n + "\n",
    "subproc_bang_wrong_closer": lambda n: "![a " * n + ")" + "]" * n + "\n",
    "subproc_inject_wrong_closer": lambda n: "$(ls " + "@$(a " * n + "}" + ")" * n + ")\n",
    # right-nested and chained expressions in an input that is rejected (in the tail of the chain, or on a later line): the
    # diagnostic pass walks the chain with the invalid_* alternatives switched on
    # long argument lists in a rejected input (the invalid_kwarg / invalid_arguments alternatives see every argument)
    "call_kwargs_then_error": lambda n: "f(" + ", ".join(f"k{i}=1" for i in range(n)) + ")\nb c\n",
    "call_kwargs_bad_tail": lambda n: "f(" + ", ".join(f"k{i}=v{i}" for i in range(n)) + " b)\n",
    "call_mixed_args_then_error": lambda n: "f(a, *b, " + ", ".join(f"k{i}=g(x={i})" for i in range(n)) + ", **c)\nb c\n",
    "class_kwargs_then_error": lambda n: "class A(B, " + ", ".join(f"k{i}=1" for i in range(n)) + "):\n    pass\nb c\n",
    "ifexp_bad_tail": lambda n: "x = " + "a if b else " * n + "c d\n",
    "ifexp_then_error": lambda n: "x = " + "a if b else " * n + "c\nb c\n",
    "ifexp_paren_bad_tail": lambda n: "x = " + "(a if " * n + "b" + " else c)" * n + " d\n",
    "not_bad_tail": lambda n: "x = " + "not " * n + "a b\n",
    "unary_bad_tail": lambda n: "x = " + "-" * n + "a b\n",
    "power_bad_tail": lambda n: "x = " + "a ** " * n + "b c\n",
    "await_bad_tail": lambda n: "await " * n + "a b\n",
    "lambda_then_error": lambda n: "x = " + "lambda: " * n + "1\nb c\n",
    "boolop_bad_tail": lambda n: "x = " + "a and " * n + "b c\n",
    "compare_bad_tail": lambda n: "x = " + "a < " * n + "b c\n",
    "attr_chain_bad_tail": lambda n: "x = a" + ".b" * n + " c\n",
    "call_chain_bad_tail": lambda n: "x = a" + "(b)" * n + " c\n",
    "subscript_chain_bad_tail": lambda n: "x = a" + "[b]" * n + " c\n",
    "chain_trailing_op": lambda n: "x = " + " + ".join(["a"] * n) + " +\n",
    "args_bad_tail": lambda n: "f(" + ",".join(["a"] * n) + " b)\n",
    "stmts_then_error": lambda n: "a = 1\n" * n + "b c\n",
    "elif_then_error": lambda n: "if a:\n pass\n" + "elif b:\n pass\n" * n + "x = = 1\n",
    "elif_else_then_error": lambda n: "if a:\n pass\n" + "elif b:\n pass\n" * n + "else:\n pass\nf(a b)\n",
    "cases_then_error": lambda n: "match x:\n" + " case 1: pass\n" * n + "import\n",
    "excepts_then_error": lambda n: "try:\n pass\n" + "except A: pass\n" * n + "x y\n",
    "decorators_then_error": lambda n: "@a\n" * n + "def f(): pass\nreturn = 1\n",
    "with_items_then_error": lambda n: "with " + ", ".join(["a as b"] * n) + ": pass\n1 1\n",
    "list_binop_items_bad": lambda n: "[" + "a-b, " * n + " b] ]\n",
    "tuple_binop_items_bad": lambda n: "a-b, " * n + " b )\n",
    "list_call_items_bad": lambda n: "[" + "f(a), " * n + " b] ]\n",
    "list_subscript_items_bad": lambda n: "x = [" + "a[0], " * n + " b] ]\n",
    "slice_bad": lambda n: "[" * n + "a :" + "]" * n + "\n",
    "ifexp_bad": lambda n: "[" * n + "a if" + "]" * n + "\n",
}
BREADTH = {
    "dict_items", "list_items", "call_args", "call_kwargs", "binop_chain", "boolop_chain", "compare_chain", "attr_chain", "call_chain", "subscript_chain",
    "statements", "if_blocks", "def_blocks", "for_else_blocks", "with_blocks", "try_blocks", "class_blocks", "while_nested_blocks", "match_blocks", "with_macro_blocks", "semicolons", "string_pieces", "assign_chain", "target_tuple", "lambda_params", "def_params", "type_params", "decorators", "elif", "cases",
    "match_or", "except_clauses", "with_items", "import_names", "global_names", "star_args", "subproc_words", "subproc_glued", "subproc_env", "pipes",
    "call_kwargs_then_error", "call_kwargs_bad_tail", "call_mixed_args_then_error", "class_kwargs_then_error", "boolop_bad_tail", "compare_bad_tail", "attr_chain_bad_tail", "call_chain_bad_tail", "subscript_chain_bad_tail",
    "macro_args", "fstring_fields", "fstr_spec", "comp_fors", "comp_ifs", "slices_tuple", "help_chain", "and_or_xonsh", "chain_trailing_op", "args_bad_tail", "stmts_then_error", "list_binop_items_bad", "tuple_binop_items_bad", "list_call_items_bad", "list_subscript_items_bad", "elif_then_error", "elif_else_then_error", "cases_then_error", "excepts_then_error", "decorators_then_error", "with_items_then_error",
}


LONG_RUNS = {"statements", "if_blocks", "def_blocks", "for_else_blocks", "with_blocks", "try_blocks", "class_blocks", "while_nested_blocks", "match_blocks", "with_macro_blocks"}


# bracket nests that stay cheap and well inside the recursion limit: measured much deeper (a quadratic term with a small
# coefficient only shows at depth)
DEEP = {"ifexp_nested", "ifexp_bad_tail", "ifexp_then_error", "not_bad_tail", "unary_bad_tail", "power_bad_tail", "await_bad_tail", "lambda_then_error", "del_paren", "del_bracket", "del_paren_attr", "paren_target", "list_target", "del_nested", "for_target", "with_nested_paren", "match_group", "match_seq", "walrus", "proc_group", "slices", "annot", "match_class", "match_map"}


def sizes(ctx_thorough: bool, breadth: bool, name: str = ""):
    if name in DEEP:
        return (16, 32, 64, 128, 256)
    if name in LONG_RUNS:  # position-dependent costs need length to show: up to a few thousand tokens
        return (64, 128, 256, 512, 1024) if ctx_thorough else (64, 128, 256, 512)
    if breadth:
        return (16, 32, 64, 128, 256) if ctx_thorough else (16, 32, 64, 128)
    return (4, 8, 16, 32, 64) if ctx_thorough else (4, 8, 16, 32)


LONG_CAP = 40_000_000

# ---- nesting that starts late in a long input: the cost of the nest must not depend on what precedes it -------------
PREFIXES = {
    "assignments": lambda: "".join(f"v{i} = f(a.b[{i}], c='s') + [d, e]\n" for i in range(900)),
    "mixed": lambda: "".join(f"def g{i}(a, b=1):\n    if a:\n        return [a, b, {i}]\n    $(echo @(a) {i})\nw{i} = g{i}(1)\n" for i in range(260)),
}
LATE = {
    "late_nested_if": lambda n: "".join(" " * i + "if a:\n" for i in range(n)) + " " * n + "x = 1\n",
    "late_nested_try": lambda n: FIXED["nested_try"](n),
    "late_tuple_target": lambda n: "(" * n + "a," + ")" * n + " = y\n",
    "late_brackets": lambda n: "x = " + "[" * n + "a" + "]" * n + "\n",
    "late_match_seq": lambda n: FIXED["match_seq"](n),
    "late_call_kw": lambda n: "f(k=" * n + "a" + ")" * n + "\n",
    "late_subproc": lambda n: FIXED["proc_py"](n),
    "late_lambda": lambda n: "x = " + "lambda: " * n + "0\n",
    "late_bad_paren": lambda n: FIXED["paren_bad"](n),
}
_PREFIX_WORK: dict = {}


def check_late(rec, case):
    pname, name = case["prefix"], case["name"]
    prefix = PREFIXES[pname]()
    if pname not in _PREFIX_WORK:
        _PREFIX_WORK[pname] = measure(prefix, cap=LONG_CAP)
    _, tp, v0 = _PREFIX_WORK[pname]
    # baseline = the same construct at depth 1 after the same prefix (a rejected input is parsed twice, prefix included:
    # that doubling belongs to the baseline, not to the nest)
    w0, t0, v1 = measure(prefix + LATE[name](1), cap=LONG_CAP)
    rows = []
    for n in case.get("ns") or ((4, 8, 12, 16) if case.get("thorough") else (4, 8, 12)):
        w, t, v = measure(prefix + LATE[name](n), cap=w0 + CAP)
        rows.append((n, w - w0, t - t0, v))
        if v in ("CAP", "recursion", "hang"):
            break
    klass = "invalid" if "bad" in name else "valid"
    rec.case(case, v0 == "ok" and tp >= 10000, labels=(f"class:{klass}", "kind:late-nesting", f"prefix:{pname}"), key=("late", pname, name))
    if v0 != "ok":
        rec.inconclusive[f"late-prefix-not-parsed:{v0}"] += 1
        return
    for n, extra, toks, v in rows:
        if v in ("CAP", "hang") or extra > K_PER_TOKEN * max(toks, 1) + K0:
            what = "cap-exceeded" if v in ("CAP", "hang") else "per-token-bound"
            rec.fail(dict(case, klass=klass), f"superlinear:{what}:{klass}:late-nesting", {"rows": rows, "at_n": n, "prefix_tokens": tp, "baseline_work": w0, "note": "work and tokens are those added by nesting deeper than 1 (total minus the same input with depth 1)"})
            return


def run_family(builder, ns, cap=CAP, verbose=False):
    rows = []
    for n in ns:
        src = builder(n)
        w = measure(src, cap, verbose)
        rows.append((n, *w))
        if w[2] in ("CAP", "recursion", "hang"):
            break
    return rows


def verdict(rows):
    """None if linear, else (signature, detail)"""
    ws = [r for r in rows if r[3] not in ("recursion",)]
    if not ws:
        return None
    if any(r[3] in ("CAP", "hang") for r in ws):
        r = next(r for r in ws if r[3] in ("CAP", "hang"))
        return ("superlinear:cap-exceeded", {"rows": rows, "at_n": r[0]})
    for n, work, toks, v in ws:
        if work > K_PER_TOKEN * max(toks, 1) + K0:
            return ("superlinear:per-token-bound", {"rows": rows, "at_n": n, "per_token": work // max(toks, 1)})
    if len(ws) >= 3:
        a, b = ws[-2], ws[-1]
        if b[0] == 2 * a[0] and a[1] > 2000 and b[1] / a[1] > RATIO:
            return ("superlinear:doubling-ratio", {"rows": rows, "ratio": round(b[1] / a[1], 2)})
    return None


def check(rec, case):
    thorough = case.get("thorough", False)
    if case["kind"] == "late":
        return check_late(rec, case)
    if case["kind"] == "fixed":
        name = case["name"]
        builder = FIXED[name]
        breadth = name in BREADTH
        invalid_tail = False
    else:
        kind, unit, core, tail = case["skind"], [tuple(u) for u in case["unit"]], case["core"], case["tail"]
        builder = lambda n: build(kind, unit, core, tail, n)  # noqa: E731
        breadth = False
        invalid_tail = bool(tail)
    ns = sizes(thorough, breadth, case.get("name", ""))
    verbose = bool(case.get("verbose"))
    if verbose:  # tracing must not change the amount of parsing work (it only prints): same bounds, smaller sizes
        ns = tuple(n for n in ns if n <= (64 if breadth else 16))
    rows = run_family(builder, ns, LONG_CAP if case.get("name") in LONG_RUNS else CAP, verbose)
    largest = rows[-1]
    verdicts = {r[3] for r in rows}
    decided = verdicts - {"CAP", "hang", "recursion"}
    klass = "valid" if decided <= {"ok"} and decided else ("invalid" if decided else "undecided")
    nt = largest[2] >= 60 and largest[0] >= (64 if breadth else 16)
    labels = [f"class:{klass}", f"kind:{case.get('skind', 'fixed')}"] + (["option:verbose"] if verbose else [])
    if case["kind"] == "pattern":
        for u in unit:
            labels.append(f"wrapper:{u[0].strip()}…{u[1].strip()}")
    if verbose:
        nt = largest[2] >= 30 and largest[0] >= (64 if breadth else 16)
    rec.case(case, nt, labels=labels, key=(case.get("name"), case.get("skind"), case.get("unit"), case.get("core"), case.get("tail"), verbose))
    if "recursion" in verdicts and len(rows) <= 2:
        rec.inconclusive["recursion-limit-before-n=16"] += 1
    v = verdict(rows)
    if v is not None:
        detail = dict(v[1], example=builder(8)[:200], klass=klass)
        if case["kind"] == "fixed":
            group = "match" if case["name"].startswith("match") else case["name"]
        else:
            group = case["skind"] + ":" + ("bracket" if any(BRACKET_CHARS & set(u[0]) for u in unit) else "nobracket")
        rec.fail(dict(case, klass=klass), f"{v[0]}:{klass}:{group}" + (":verbose" if verbose else ""), detail)


def pattern_from(rnd):
    kind = rnd.choice(KINDS)
    pool = PW if kind == "match" else W
    unit = [rnd.choice(pool) for _ in range(rnd.randint(1, 3))]
    if kind in ("target", "del", "for"):
        unit = [rnd.choice(TW) for _ in range(rnd.randint(1, 2))]
    core = rnd.choice(["a", "1", "a.b", "f(x)", "'s'", "$X"] if kind != "match" else ["a", "1", "_"])
    tail = rnd.choice(TAILS) if rnd.random() < 0.55 else ""
    return {"kind": "pattern", "skind": kind, "unit": [list(u) for u in unit], "core": core, "tail": tail}


SHRINK_FIELDS = ()


def search(rec, ctx):
    for name in ctx.shard(sorted(FIXED)):
        check(rec, {"kind": "fixed", "name": name, "thorough": ctx.thorough})
    for name in ctx.shard(sorted(n for n in FIXED if n not in LONG_RUNS)[::-1]):
        check(rec, {"kind": "fixed", "name": name, "thorough": ctx.thorough, "verbose": True})
    late = [(p, n) for p in sorted(PREFIXES) for n in sorted(LATE)]
    if not ctx.thorough:
        late = [x for x in late if x[0] == "assignments" and x[1] in ("late_nested_if", "late_tuple_target", "late_match_seq", "late_brackets", "late_bad_paren", "late_subproc")]
    for pname, name in ctx.shard(late):
        check(rec, {"kind": "late", "prefix": pname, "name": name, "thorough": ctx.thorough})

    def pat(rnd):
        c = pattern_from(rnd)
        c["thorough"] = ctx.thorough
        check(rec, c)

    drive(st.randoms(use_true_random=False), pat, ctx.budget(3200, 40000), ctx.hseed("patterns"))


# ---- known-finding matchers -------------------------------------------------------------------------


SUBPROC_OPENERS = ("$(", "$[", "![", "!(", "@$(")


@known.matcher
def invalid_input_with_subprocess_wrapper(case, signature, detail):
    """D42: rejected input nested through a subprocess bracket grows quadratically (never hits the cap)"""
    if case.get("klass") != "invalid" or "cap-exceeded" in signature:
        return False
    if case.get("kind") == "fixed":  # the fixed families that are exactly this shape (exponential growth would still hit the cap)
        return case.get("name", "").startswith("subproc_") and case.get("name", "").endswith("wrong_closer")
    if case.get("kind") != "pattern":
        return False
    return any(any(op in u[0] for op in SUBPROC_OPENERS) for u in case["unit"]) or case.get("skind") == "subproc"
