"""C08 -- the tokenizer is lossless: tokens tile the source with exact, ordered positions."""

from __future__ import annotations

from hypothesis import strategies as st

from ..common import repo_modules, tokens_outcome
from ..gen import corpus, mutate, soup, xonsh
from ..gen.pysrc import PyGen
from ..hyp import drive

META = {
    "level": "exploration",
    "rule": (
        "inputs: G1 generated Python programs (Hypothesis-managed Random), corpus statements (repo test data + stdlib sample), "
        "xonsh seeds, G4 token/line mutations and prefixes of all of these (incl. nasty characters), G9 character soup with "
        "dictionary fragments, layout variants (CRLF, tabs, form feeds, no final newline); every text on which generate_tokens "
        "finishes is checked against the pure tiling oracle (slice equality, order, gap shape, NEWLINE/INDENT/DEDENT/ENDMARKER "
        "structure; a line end outside brackets that follows a significant token must be a NEWLINE token, a line end inside brackets the text has opened and not closed must not be one). non-trivial = >=2 physical lines and at least one of {multi-line token, tab/form feed, CRLF, non-ASCII, "
        "backslash continuation, indentation change}; distinct by text."
    ),
    "assumptions": [
        "lines are split on '\\n' only, as io.StringIO.readline does",
        "texts on which the tokenizer raises (TokenError/IndentationError) are outside C08's quantifier; other exceptions are forwarded to C03",
    ],
}

BLANK = " \t\f"


def split_lines(text: str) -> list[str]:
    parts = text.split("\n")
    lines = [p + "\n" for p in parts[:-1]]
    if parts[-1]:
        lines.append(parts[-1])
    return lines


def oracle(text: str, toks) -> tuple[str, object] | None:
    """first violation of the tiling/structure rules as (signature, detail), else None"""
    T = repo_modules()["T"].Token
    lines = split_lines(text)
    nlines = len(lines)
    offs = [0]
    for ln in lines:
        offs.append(offs[-1] + len(ln))

    def absolute(pos):
        l, c = pos
        if l < 1:
            return None
        if l > nlines:
            # one past the end: only column 0 (or the EOF NEWLINE convention) makes sense
            return offs[-1] if l == nlines + 1 and c == 0 else None
        if c > len(lines[l - 1]) + 1:
            return None
        return offs[l - 1] + c

    structural_empty = (T.DEDENT, T.ENDMARKER)
    prev_end = 0
    prev_start = (0, 0)
    n_indent = n_dedent = n_end = 0
    open_line = False
    depth = 0
    for i, t in enumerate(toks):
        name = t.type.name
        if t.start < prev_start:
            return (f"order:{name}", {"index": i, "start": t.start, "prev_start": prev_start})
        prev_start = t.start
        if t.type == T.ENDMARKER:
            n_end += 1
            if i != len(toks) - 1:
                return ("endmarker-not-last", {"index": i})
        if t.type == T.INDENT:
            n_indent += 1
        if t.type == T.DEDENT:
            n_dedent += 1
        if t.type in structural_empty or (t.type == T.NEWLINE and t.string == ""):
            if t.string != "":
                return (f"structural-nonempty:{name}", {"index": i, "string": t.string})
        else:
            a, b = absolute(t.start), absolute(t.end)
            if a is None or b is None or b < a:
                return (f"bad-coordinates:{name}", {"index": i, "start": t.start, "end": t.end, "string": t.string})
            if text[a:b] != t.string:
                return (f"slice-mismatch:{name}", {"index": i, "start": t.start, "end": t.end, "string": t.string, "slice": text[a:b][:80]})
            if a < prev_end:
                return (f"overlap:{name}", {"index": i, "start": t.start, "string": t.string})
            gap = text[prev_end:a]
            if gap and not gap_ok(text, prev_end, a):
                return ("uncovered-text", {"before_token": i, "gap": gap[:60], "at": prev_end})
            prev_end = b
        # logical-line structure
        # (a NEWLINE closing a logical line without significant tokens, e.g. after a lone
        #  backslash line, is not forbidden by the property and is not flagged)
        # bracket depth as the text shows it (a stray closer opens nothing: clamped at 0)
        if t.type == T.OP and t.string[-1:] in "([{":
            depth += 1
        elif t.type == T.OP and t.string in (")", "]", "}"):
            depth = max(0, depth - 1)
        # a physical line end outside brackets and strings ends the logical line: if that line holds a significant token,
        # the line end must be a NEWLINE token -- not an NL, and not part of some other token's text
        if depth == 0 and open_line and "\n" in t.string:
            if t.type == T.NL:
                return ("line-end-of-open-logical-line-is:NL", {"index": i, "start": t.start})
            if t.type in (T.ERRORTOKEN, T.NAME, T.NUMBER, T.OP):
                return (f"line-end-swallowed-by:{name}", {"index": i, "start": t.start, "string": t.string[:40]})
        # ... and conversely a line end inside brackets the text has opened and not closed joins lines: a NEWLINE token there
        # would end the logical line early and give it a second NEWLINE later
        if depth > 0 and t.type == T.NEWLINE and t.string:
            return ("newline-inside-open-brackets", {"index": i, "start": t.start, "depth": depth})
        if t.type == T.NEWLINE:
            open_line = False
        elif t.type not in (T.WS, T.COMMENT, T.NL, T.INDENT, T.DEDENT, T.ENDMARKER) and not (t.type == T.ERRORTOKEN and t.string.isspace()):
            # "significant" = what the parser gets to see (whitespace error tokens are skipped like WS)
            open_line = True
    tail = text[prev_end:]
    if tail and not gap_ok(text, prev_end, len(text)):
        return ("uncovered-tail", {"gap": tail[:60], "at": prev_end})
    if n_end != 1:
        return ("endmarker-count", {"count": n_end})
    if open_line:
        return ("missing-newline", {})
    if n_indent != n_dedent:
        return ("indent-dedent-imbalance", {"indent": n_indent, "dedent": n_dedent})
    return None


def gap_ok(text: str, a: int, b: int) -> bool:
    """text[a:b] is only line-leading blanks and backslash-newline continuations"""
    i = a
    while i < b:
        ch = text[i]
        if ch == "\\" and text.startswith("\\\n", i):
            i += 2
        elif ch == "\\" and text.startswith("\\\r\n", i):
            i += 3
        elif ch in BLANK:
            # must be line-leading: everything back to the previous newline (or start) is blank
            j = i - 1
            while j >= 0 and text[j] in BLANK:
                j -= 1
            if j >= 0 and text[j] != "\n":
                return False
            i += 1
        else:
            return False
    return True


def nontrivial(text: str, toks) -> bool:
    if text.count("\n") < 1 or len(split_lines(text)) < 2:
        return False
    if any(t.start[0] != t.end[0] and t.string for t in toks):
        return True
    if "\t" in text or "\f" in text or "\r\n" in text or "\\\n" in text or not text.isascii():
        return True
    T = repo_modules()["T"].Token
    return any(t.type == T.INDENT for t in toks)


def check(rec, case):
    text = case["src"]
    kind, val = tokens_outcome(text)
    if kind != "tokens":
        rec.count(f"outcome:{kind}")
        rec.case(case, False, labels=(f"stream:{case.get('stream', '?')}",))
        if kind in ("raise", "hang"):
            # totality is C03's property; it is reported there.  Counted here so it stays visible.
            rec.inconclusive[f"forwarded-to-C03:{val.canon()}"[:120]] += 1
        return
    rec.count("outcome:tokens")
    nt = nontrivial(text, val)
    rec.case(case, nt, labels=(f"stream:{case.get('stream', '?')}",), key=text)
    bad = oracle(text, val)
    if bad is not None:
        rec.fail(case, bad[0], bad[1])


def layout_variant(rnd, src: str) -> str:
    k = rnd.randrange(5)
    if k == 0:
        return src.replace("\n", "\r\n")
    if k == 1:
        return src.rstrip("\n")
    if k == 2:
        return src.replace("    ", "\t")
    if k == 3:
        return "\f" + src
    return src + rnd.choice(["   ", "# end", "\n\n", "\t\n", "  # c"])


def search(rec, ctx):
    seeds = xonsh.xonsh_seeds()
    crng = ctx.rng("corpus")
    corp = [s for _, s in corpus.sample_statements(crng, 40 if ctx.thorough else 4, per_file=60 if ctx.thorough else 25)]

    def g1(rnd):
        g = PyGen(rnd, nonascii=rnd.random() < 0.3)
        src = g.program(4)
        if rnd.random() < 0.4:
            src = layout_variant(rnd, src)
        check(rec, {"src": src, "stream": "g1"})

    drive(st.randoms(use_true_random=False), g1, ctx.budget(3000, 60000), ctx.hseed("g1"))

    def fstr(rnd):
        from ..gen.fstr import FGen

        src = FGen(rnd, nonascii=rnd.random() < 0.2).statement()
        if rnd.random() < 0.3:
            src = layout_variant(rnd, src)
        check(rec, {"src": src, "stream": "g7-fstring"})
        if rnd.random() < 0.3:
            m, _ = mutate.mutate(rnd, src, xonsh=True, nasty=True)
            check(rec, {"src": m, "stream": "g7-fstring-mutated"})

    drive(st.randoms(use_true_random=False), fstr, ctx.budget(8000, 150000), ctx.hseed("fstr"))

    def mut(rnd):
        pool = seeds if rnd.random() < 0.4 or not corp else corp
        base = pool[rnd.randrange(len(pool))]
        if rnd.random() < 0.3:
            base = layout_variant(rnd, base)
        src, op = mutate.mutate(rnd, base, xonsh=True, nasty=True)
        check(rec, {"src": src, "stream": "mutation"})

    drive(st.randoms(use_true_random=False), mut, ctx.budget(8000, 300000), ctx.hseed("mut"))

    drive(soup.soup, lambda s: check(rec, {"src": s, "stream": "soup"}), ctx.budget(12000, 400000), ctx.hseed("soup"))

    for s in ctx.shard(seeds):
        check(rec, {"src": s, "stream": "xonsh-seed"})
        for pre in mutate.token_prefixes(s):
            check(rec, {"src": pre, "stream": "xonsh-prefix"})
    for s in corp:
        check(rec, {"src": s, "stream": "corpus"})
        r = ctx.rng("layout", s[:40])
        check(rec, {"src": layout_variant(r, s), "stream": "corpus-layout"})

    # coverage-guided campaign whose target asserts the same tiling oracle
    from ..fuzz import campaign

    campaign(rec, ctx, "C08", 400000 if ctx.thorough else 10000, 96 if ctx.thorough else 48)
