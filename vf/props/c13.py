"""C13 -- parsing is a pure function: deterministic, history-free and thread-safe."""

from __future__ import annotations

import ast
import json
import os
import pathlib
import subprocess
import sys
import tempfile
import threading
from concurrent.futures import ThreadPoolExecutor

import hypothesis
from hypothesis import HealthCheck, Phase, settings
from hypothesis import strategies as st
from hypothesis.stateful import RuleBasedStateMachine, invariant, rule, run_state_machine_as_test

from ..common import XonshParser, classify_exception, dump, outcome, repo_modules
from ..gen import corpus, mutate, xonsh
from ..gen.fstr import FGen
from ..gen.pysrc import PyGen

META = {
    "level": "exploration",
    "rule": (
        "histories: Hypothesis RuleBasedStateMachine over a pool of ~250 inputs per worker (valid/invalid Python, every xonsh form, call/with/"
        "subprocess macros, path literals incl. pf, f-strings, inputs failing in the first and in the second pass) x options (mode, py_version); "
        "rules: parse(i) / parse_file(i) / parse_threads(batch, 2-8 threads, switch interval 1e-6..5e-3, start barrier) / keep(i) / verbose "
        "parse / scribble(i) (parse, then rename, relocate and rewrite the returned tree in place: the caller owns it) / "
        "parse inside an except clause (ImportError, SyntaxError, UnicodeEncodeError, KeyError being handled) / parse while every clock of "
        "the time module jumps 10 s per reading; all histories of a worker run in ONE process, so state also carries over between histories.  Reference outcome of every (input, "
        "options) = canonical outcome computed in FRESH interpreters (batches, and one parse per process for a sample; batch and single "
        "references must agree).  Oracle: every result equals the reference; after every step every kept tree re-dumps identically and the "
        "Load/Store/Del singletons carry no instance attributes, and the interpreter-wide settings (recursion limit, cwd, locale, warnings filters, "
        "sys.stdout/stderr, environment, int digit limit, trace/profile hooks, thread count, sys.path) are what they were; half of the threaded "
        "steps run shallow inputs at the DEFAULT recursion limit and require it to be the default afterwards.  non-trivial = a history with >= 10 steps containing a failing parse, a macro "
        "or path-literal parse and a threaded step; distinct by step sequence."
    ),
    "assumptions": ["thread schedules are sampled (switch interval, thread count), not enumerated: the harness does not own the interpreter's scheduler", "threaded steps never use verbose=True (redirect_stdout is process-wide)"],
}
MAX_WORKERS = 16


def canon(o):
    c = o.canon()
    return json.loads(json.dumps(c, default=repr))


def parse_one(src, mode, version):
    opts = {}
    if version:
        opts["py_version"] = tuple(version)
    return canon(outcome(src, mode, **opts))


def parse_no_watchdog(src, mode, version):
    """for worker threads (SIGALRM only reaches the main thread)"""
    XP = XonshParser()
    opts = {}
    if version:
        opts["py_version"] = tuple(version)
    from ..common import Outcome

    try:
        tree = XP.parse_string(src, mode=mode, **opts)
        return canon(Outcome("tree", tree=tree))
    except BaseException as e:  # noqa: BLE001
        return canon(classify_exception(e))


# ---------------------------------------------------------------------------------------------
# reference outcomes from fresh interpreters


def reference_batch(items, single=False):
    """items: list of [src, mode, version]; returns list of canonical outcomes"""
    with tempfile.TemporaryDirectory(prefix="vf-c13-", dir=os.environ.get("VERIF_WORKER_TMP")) as td:
        inp, outp = os.path.join(td, "in.json"), os.path.join(td, "out.json")
        with open(inp, "w") as f:
            json.dump(items, f)
        p = subprocess.run([sys.executable, "-m", "vf.props.c13", "ref", inp, outp], capture_output=True, text=True, timeout=1200)
        if p.returncode != 0:
            raise RuntimeError("reference subprocess failed: " + p.stderr[-500:])
        with open(outp) as f:
            return json.load(f)


def build_pool(rng, n=270):
    pool = []
    seeds = xonsh.xonsh_seeds()
    corp = [s for _, s in corpus.sample_statements(rng, 3, per_file=15) if len(s) < 600]

    def add(src, mode="exec", version=None, tags=()):
        pool.append({"src": src, "mode": mode, "version": version, "tags": list(tags)})

    for s in rng.sample(seeds, min(60, len(seeds))):
        tags = []
        if "!" in s.replace("!=", ""):
            tags.append("macro-or-bang")
        if "p'" in s or 'p"' in s or "pf" in s:
            tags.append("path")
        add(s, "exec", None, tags)
    for _ in range(25):
        c = xonsh.call_macro_case(rng)
        add(c["ctx"].replace("{M}", c["macro"]), tags=["macro-or-bang"])
    for _ in range(20):
        add(xonsh.with_macro_case(rng)["src"], tags=["macro-or-bang"])
    for _ in range(15):
        add(xonsh.proc_macro_case(rng)["text"] + "\n", tags=["macro-or-bang"])
    for _ in range(20):
        sg = xonsh.sugar(rng)
        add(f"r = [{sg.text}]\n", tags=["path"] if "p-string" in sg.kind or "pf" in sg.kind else [])
    for _ in range(25):
        add(FGen(rng).statement(), tags=["fstring"])
    for _ in range(30):
        add(PyGen(rng, max_depth=3).program(2))
    for _ in range(10):
        add(PyGen(rng, max_depth=3).expr(0), mode="eval")
    for s in corp[:20]:
        add(s)
    for _ in range(40):
        base = rng.choice(seeds + corp) if corp else rng.choice(seeds)
        src, _ = mutate.mutate(rng, base[:400], xonsh=True, nasty=rng.random() < 0.1)
        add(src, tags=["mutation"])
    for s in ["type X = 1\n", "def f[T](): pass\n", "try:\n    a\nexcept* E:\n    b\n"]:
        for v in ([3, 8], [3, 11], None):
            add(s, version=v, tags=["gated"])
    for s in ["x = (1,\n", "if a:\n  b\n c\n", "f!(a", "with! a:", "x = 'abc", "a €", "f(a for a in b, c)", "1 +", "p'a' = 1\n", "$(ls", "x = $\n", "b'é'\n"]:
        add(s, tags=["error-seed"])
    # parses that fail half-way through a construct whose helpers keep notes while they build it (debug fields, nested
    # f-strings, macro capture, path literals): whatever a failed parse leaves behind must not reach the next one
    for s in FAIL_INSIDE:
        add(s, tags=["error-seed", "fstring"])
    for _ in range(12):
        src, _ = mutate.mutate(rng, FGen(rng).statement(), xonsh=False, nasty=False)
        add(src, tags=["mutation", "fstring"])
    for s in ['f"{y} and {z}"\n', "v = f'{a:>4}|{b}'\n", "print(f'{a}{b}{c}', f'{d!r}')\n", "t = f'''{m}\n{n:{w}}'''\n"]:
        add(s, tags=["fstring"])
    rng.shuffle(pool)
    return pool[:n]


FAIL_INSIDE = [
    'f"{a=}{b!z}"\n', 'f"{p = }{}"\n', "x = f'{a=}{'\n", 'y = f"{a=:>{w}}{c!}"\n', "z = f'''{q=}\n{r = !r}{s t}'''\n", "f'{a=}' f'{b=}{'\n", "pf'{a=}/{b!x}'\n", "g!(f'{a=}', f'{b!z}')\n",
    "r = f'{f\"{i=}\"}{j!q}'\n", "w = f'{k=}' b'x'\n", "$(echo f'{a=}{b!z}')\n", "with! m:\n  f'{a=}{'\n",
]


# ---------------------------------------------------------------------------------------------
# machine

_state = {}


def process_settings():
    """interpreter-wide settings a parse has no business changing (what it finds on entry it leaves on exit)"""
    import locale
    import warnings

    return {
        "recursionlimit": sys.getrecursionlimit(),
        "cwd": os.getcwd(),
        "locale": locale.setlocale(locale.LC_ALL),
        "warnings.filters": len(warnings.filters),
        "stdout": id(sys.stdout),
        "stderr": id(sys.stderr),
        "environ": hash(tuple(sorted(os.environ.items()))),
        "int_max_str_digits": sys.get_int_max_str_digits(),
        "trace": id(sys.gettrace()),
        "profile": id(sys.getprofile()),
        "threads": threading.active_count(),
        "sys.path": hash(tuple(sys.path)),
    }


def shallow(src: str) -> bool:
    """safe to parse at the default recursion limit (finding D22 is about deep nesting)"""
    depth = mx = 0
    for ch in src:
        if ch in "([{":
            depth += 1
            mx = max(mx, depth)
        elif ch in ")]}":
            depth = max(0, depth - 1)
    return mx <= 5 and len(src) <= 400 and src.count("\n    ") <= 12


def threaded_batch(pool, batch, nthreads, interval, low_limit):
    """parse the batch on nthreads threads; -> (results, problem or None).  With low_limit the interpreter runs at the
    default recursion limit meanwhile, and must still be at it afterwards"""
    barrier = threading.Barrier(min(nthreads, len(batch)))
    old = sys.getswitchinterval()
    old_limit = sys.getrecursionlimit()
    sys.setswitchinterval(interval)
    if low_limit:
        sys.setrecursionlimit(1000)

    def work(k, i):
        if k < barrier.parties:
            try:
                barrier.wait(timeout=5)
            except threading.BrokenBarrierError:
                pass
        it = pool[i]
        return i, parse_no_watchdog(it["src"], it["mode"], it["version"])

    problem = None
    try:
        with ThreadPoolExecutor(max_workers=nthreads) as ex:
            futs = [ex.submit(work, k, i) for k, i in enumerate(batch)]
            results = [f.result(timeout=300) for f in futs]
    finally:
        sys.setswitchinterval(old)
        if low_limit and sys.getrecursionlimit() != 1000:
            problem = ("recursionlimit", 1000, sys.getrecursionlimit())
        sys.setrecursionlimit(old_limit)
    return results, problem


def scribble_tree(tree):
    """what a caller may do with a tree it was handed: rename, relocate, rewrite constants (contexts are left alone)"""
    for n in ast.walk(tree):
        if isinstance(n, ast.Name):
            n.id = "_scribbled"
        elif isinstance(n, ast.Attribute):
            n.attr = "_scribbled"
        elif isinstance(n, ast.Constant) and isinstance(n.value, str):
            n.value = "_scribbled"
        for a in ("lineno", "end_lineno", "col_offset", "end_col_offset"):
            v = getattr(n, a, None)
            if isinstance(v, int) and "lineno" in getattr(n, "_attributes", ()):
                setattr(n, a, v + 1000)


def parse_in_handler(it, what):
    try:
        if what == "ImportError":
            raise ImportError("No module named 'nowhere'")
        if what == "SyntaxError":
            compile("x = = 1", "<other>", "exec")
        if what == "UnicodeEncodeError":
            "\ud800".encode("utf-8")
        raise KeyError("k")
    except Exception:  # noqa: BLE001
        return parse_one(it["src"], it["mode"], it["version"])


def parse_with_racing_clock(it):
    import time

    names = ["time", "monotonic", "perf_counter", "process_time", "thread_time", "time_ns", "monotonic_ns", "perf_counter_ns"]
    saved = {n: getattr(time, n) for n in names}
    tick = [0]

    def racing(scale):
        def clock():
            tick[0] += 10
            return tick[0] * scale

        return clock

    try:
        for n in names:
            setattr(time, n, racing(10**9 if n.endswith("_ns") else 1))
        return parse_no_watchdog(it["src"], it["mode"], it["version"])
    finally:
        for n, f in saved.items():
            setattr(time, n, f)


def make_machine(rec, pool, refs, tmpdir):
    S = repo_modules()["S"]
    XP = XonshParser()
    steps_log = _state.setdefault("steps", [])
    idx = st.integers(0, len(pool) - 1)

    def expect(i, got, what):
        if got != refs[i]:
            it = pool[i]
            rec.fail(
                {"steps": list(steps_log), "failing": {"input": it, "what": what}},
                f"{what}-differs-from-fresh-interpreter:{refs[i][0]}->{got[0]}",
                {"input": it["src"][:200], "reference": [str(x)[:200] for x in refs[i]], "got": [str(x)[:200] for x in got], "steps_before": len(steps_log)},
            )

    class Machine(RuleBasedStateMachine):
        def __init__(self):
            super().__init__()
            self.kept = []
            self.n = 0
            self.flags = set()
            self.settings = process_settings()

        def note(self, i, kind):
            self.n += 1
            it = pool[i]
            if refs[i][0] != "tree":
                self.flags.add("failing")
            if "macro-or-bang" in it["tags"] or "path" in it["tags"]:
                self.flags.add("macro-or-path")
            rec.count(f"step:{kind}")
            rec.evaluations += 1  # every compared parse is a case; histories are the non-trivial units

        @rule(i=idx)
        def parse(self, i):
            it = pool[i]
            steps_log.append(["parse", i])
            self.note(i, "parse")
            expect(i, parse_one(it["src"], it["mode"], it["version"]), "parse")

        @rule(i=idx)
        def parse_verbose(self, i):
            it = pool[i]
            if len(it["src"]) > 200:
                return
            steps_log.append(["verbose", i])
            self.note(i, "verbose")
            import contextlib
            import io

            opts = {"verbose": True}
            if it["version"]:
                opts["py_version"] = tuple(it["version"])
            with contextlib.redirect_stdout(io.StringIO()):
                got = canon(outcome(it["src"], it["mode"], **opts))
            expect(i, got, "verbose-parse")

        @rule(i=idx)
        def parse_file(self, i):
            it = pool[i]
            if it["mode"] != "exec" or it["version"] or "\r" in it["src"] or "\x00" in it["src"]:
                return
            try:
                data = it["src"].encode("utf-8")
            except UnicodeEncodeError:
                return
            steps_log.append(["file", i])
            self.note(i, "file")
            p = pathlib.Path(tmpdir) / "input.xsh"
            p.write_bytes(data)
            from ..common import Outcome, SoftTimeout, watchdog

            try:
                with watchdog():
                    o = Outcome("tree", tree=XP.parse_file(p))
            except SoftTimeout:
                o = Outcome("hang")
            except BaseException as e:  # noqa: BLE001
                o = classify_exception(e)
            got = canon(o)
            ref = refs[i]
            if got[0] == "error" and ref[0] == "error":
                got, ref = got[:-1], ref[:-1]  # file name differs by definition
            if got != ref:
                rec.fail({"steps": list(steps_log), "failing": {"input": it, "what": "parse_file"}}, f"parse_file-differs-from-fresh-interpreter:{ref[0]}->{got[0]}", {"input": it["src"][:200], "reference": [str(x)[:200] for x in ref], "got": [str(x)[:200] for x in got]})

        @rule(batch=st.lists(idx, min_size=2, max_size=12), nthreads=st.integers(2, 8), interval=st.sampled_from([1e-6, 1e-5, 1e-4, 1e-3, 5e-3]), low=st.booleans())
        def parse_threads(self, batch, nthreads, interval, low):
            if low:
                batch = [i for i in batch if shallow(pool[i]["src"])]
                if len(batch) < 2:
                    return
            steps_log.append(["threads", batch, nthreads, interval, low])
            self.flags.add("threaded")
            rec.count("step:threads" + (":default-recursion-limit" if low else ""))
            results, problem = threaded_batch(pool, batch, nthreads, interval, low)
            if problem:
                rec.fail({"steps": list(steps_log), "failing": {"what": "process-setting"}}, f"process-setting-changed:{problem[0]}", {"setting": problem[0], "before": problem[1], "after": problem[2]})
            for i, got in results:
                self.note(i, "threaded-parse")
                expect(i, got, "threaded-parse")

        @rule(i=idx)
        def keep(self, i):
            it = pool[i]
            steps_log.append(["keep", i])
            o = outcome(it["src"], it["mode"], **({"py_version": tuple(it["version"])} if it["version"] else {}))
            if o.kind == "tree":
                self.kept.append((i, o.tree, dump(o.tree)))
                self.kept = self.kept[-8:]

        @rule(i=idx)
        def scribble(self, i):
            """the caller owns the tree it gets: editing it in place must not show in any later parse"""
            it = pool[i]
            steps_log.append(["scribble", i])
            rec.count("step:scribble")
            o = outcome(it["src"], it["mode"], **({"py_version": tuple(it["version"])} if it["version"] else {}))
            if o.kind == "tree":
                scribble_tree(o.tree)

        @rule(i=idx, what=st.sampled_from(["ImportError", "SyntaxError", "UnicodeEncodeError", "KeyError"]))
        def parse_in_handler(self, i, what):
            """the outcome does not depend on what the caller happens to be doing: here, handling an exception"""
            it = pool[i]
            steps_log.append(["in-handler", i, what])
            self.note(i, "parse-in-handler")
            expect(i, parse_in_handler(it, what), "parse-inside-except-clause")

        @rule(i=idx)
        def parse_with_racing_clock(self, i):
            """... nor on the time: every clock of the time module jumps ten seconds per reading while this parse runs"""
            it = pool[i]
            steps_log.append(["racing-clock", i])
            self.note(i, "parse-with-racing-clock")
            expect(i, parse_with_racing_clock(it), "parse-with-racing-clock")

        @invariant()
        def kept_trees_unchanged(self):
            for i, tree, d in self.kept:
                if dump(tree) != d:
                    rec.fail({"steps": list(steps_log), "failing": {"input": pool[i], "what": "kept-tree"}}, "kept-tree-altered-by-later-parse", {"input": pool[i]["src"][:200]})
                    self.kept = []
                    return
            for name in ("Load", "Store", "Del"):
                if vars(getattr(S, name)):
                    rec.fail({"steps": list(steps_log)}, f"singleton-{name}-has-instance-attributes", {"attrs": sorted(vars(getattr(S, name)))})
            now = process_settings()
            if now != self.settings:
                what = sorted(k for k in now if now[k] != self.settings[k])
                rec.fail({"steps": list(steps_log), "failing": {"what": "process-setting"}}, f"process-setting-changed:{what[0]}", {"changed": {k: [self.settings[k], now[k]] for k in what}})
                self.settings = now

        def teardown(self):
            nt = self.n >= 10 and {"failing", "macro-or-path", "threaded"} <= self.flags
            rec.case({"history_steps": self.n, "flags": sorted(self.flags), "first_steps": steps_log[-self.n :][:6] if self.n else []}, nt, key=("history", len(steps_log)))

    return Machine


def check(rec, case):
    """replay: re-run the recorded steps in this process (the replay worker is a fresh interpreter)"""
    import contextlib
    import io

    pool, refs, steps = case["pool"], case["refs"], case["steps"]
    tmpdir = tempfile.mkdtemp(prefix="vf-c13-replay-", dir=os.environ.get("VERIF_WORKER_TMP"))
    rec.case({"replayed_steps": len(steps)}, False, key=json.dumps(steps)[:2000])
    XP = XonshParser()
    kept = []
    settings0 = process_settings()

    def differs(what, i, got, ref):
        if got != ref:
            rec.fail(case, f"{what}-differs-from-fresh-interpreter:{ref[0]}->{got[0]}", {"input": pool[i]["src"][:200]})
            return True
        return False

    for st_ in steps:
        kind = st_[0]
        if kind == "in-handler":
            if differs("parse-inside-except-clause", st_[1], parse_in_handler(pool[st_[1]], st_[2]), refs[st_[1]]):
                return
            continue
        if kind == "racing-clock":
            if differs("parse-with-racing-clock", st_[1], parse_with_racing_clock(pool[st_[1]]), refs[st_[1]]):
                return
            continue
        if kind == "scribble":
            it = pool[st_[1]]
            o = outcome(it["src"], it["mode"], **({"py_version": tuple(it["version"])} if it["version"] else {}))
            if o.kind == "tree":
                scribble_tree(o.tree)
            continue
        if kind in ("parse", "keep"):
            it = pool[st_[1]]
            if kind == "keep":
                o = outcome(it["src"], it["mode"], **({"py_version": tuple(it["version"])} if it["version"] else {}))
                if o.kind == "tree":
                    kept.append((st_[1], o.tree, dump(o.tree)))
                continue
            if differs("parse", st_[1], parse_one(it["src"], it["mode"], it["version"]), refs[st_[1]]):
                return
        elif kind == "verbose":
            it = pool[st_[1]]
            opts = {"verbose": True}
            if it["version"]:
                opts["py_version"] = tuple(it["version"])
            with contextlib.redirect_stdout(io.StringIO()):
                got = canon(outcome(it["src"], it["mode"], **opts))
            if differs("verbose-parse", st_[1], got, refs[st_[1]]):
                return
        elif kind == "file":
            it = pool[st_[1]]
            p = pathlib.Path(tmpdir) / "input.xsh"
            p.write_bytes(it["src"].encode("utf-8"))
            from ..common import Outcome

            try:
                o = Outcome("tree", tree=XP.parse_file(p))
            except BaseException as e:  # noqa: BLE001
                o = classify_exception(e)
            got, ref = canon(o), refs[st_[1]]
            if got[0] == "error" and ref[0] == "error":
                got, ref = got[:-1], ref[:-1]
            if differs("parse_file", st_[1], got, ref):
                return
        elif kind == "threads":
            res, problem = threaded_batch(pool, st_[1], st_[2], st_[3] if len(st_) > 3 else 1e-4, bool(st_[4]) if len(st_) > 4 else False)
            if problem:
                rec.fail(case, f"process-setting-changed:{problem[0]}", {"setting": problem[0], "before": problem[1], "after": problem[2]})
                return
            for i, got in res:
                if differs("threaded-parse", i, got, refs[i]):
                    return
        now = process_settings()
        if now != settings0:
            what = sorted(k for k in now if now[k] != settings0[k])
            rec.fail(case, f"process-setting-changed:{what[0]}", {"changed": {k: [settings0[k], now[k]] for k in what}})
            return
        for i, tree, d in kept:
            if dump(tree) != d:
                rec.fail(case, "kept-tree-altered-by-later-parse", {"input": pool[i]["src"][:200]})
                return


SHRINK_FIELDS = ()
FRESH_PROCESS_REPLAY = True  # a history only means something when it starts in a fresh interpreter


def search(rec, ctx):
    threading.stack_size(256 * 1024 * 1024)
    rng = ctx.rng("pool")
    pool = build_pool(rng, 270 if not ctx.thorough else 420)
    items = [[it["src"], it["mode"], it["version"]] for it in pool]
    refs = []
    for a in range(0, len(items), 50):
        refs.extend(reference_batch(items[a : a + 50]))
    # one parse per process for a sample: rules out leakage inside the reference batches themselves
    sample = rng.sample(range(len(items)), max(8, len(items) // 12))
    for i in sample:
        single = reference_batch([items[i]])[0]
        rec.evaluations += 1
        if single != refs[i]:
            rec.fail({"pool": [pool[i]], "refs": [single], "steps": [["parse", 0]], "batch_reference": refs[i]}, f"fresh-single-differs-from-fresh-batch:{single[0]}->{refs[i][0]}", {"input": pool[i]["src"][:200], "single": [str(x)[:200] for x in single], "batch": [str(x)[:200] for x in refs[i]]})
    rec.notes["pool_size"] = len(pool)
    rec.notes["reference_outcome_kinds"] = {k: sum(1 for r in refs if r[0] == k) for k in sorted({r[0] for r in refs})}
    tmpdir = tempfile.mkdtemp(prefix="vf-c13-", dir=os.environ.get("VERIF_WORKER_TMP"))
    Machine = make_machine(rec, pool, refs, tmpdir)
    sett = settings(
        max_examples=ctx.budget(640, 8000),
        stateful_step_count=30 if not ctx.thorough else 60,
        database=None,
        deadline=None,
        phases=[Phase.generate],
        suppress_health_check=list(HealthCheck),
        report_multiple_bugs=False,
        verbosity=hypothesis.Verbosity.quiet,
    )
    run_state_machine_as_test(hypothesis.seed(ctx.hseed("machine"))(Machine), settings=sett)
    # make recorded failures replayable: attach pool and references
    for slot in rec.failures.values():
        c = slot["case"]
        if "steps" in c and "pool" not in c:
            c["pool"], c["refs"] = pool, refs
            slot["size"] = len(c["steps"])


if __name__ == "__main__" and len(sys.argv) >= 4 and sys.argv[1] == "ref":
    with open(sys.argv[2]) as f:
        todo = json.load(f)
    out = [parse_one(src, mode, version) for src, mode, version in todo]
    with open(sys.argv[3], "w") as f:
        json.dump(out, f)


def candidates(case):
    """shorter histories (drop one step; halve first)"""
    steps = case.get("steps", [])
    n = len(steps)
    if n > 4:
        yield dict(case, steps=steps[n // 2 :])
        yield dict(case, steps=steps[: n // 2])
    for i in range(n):
        yield dict(case, steps=steps[:i] + steps[i + 1 :])
