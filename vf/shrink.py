"""Text minimisation (ddmin-style): delete line blocks, then token-ish chunks, then characters."""

from __future__ import annotations

import re
import time


def _ddmin(parts: list, join, pred, deadline) -> list:
    n = 2
    while len(parts) >= 2 and time.monotonic() < deadline:
        chunk = max(1, len(parts) // n)
        removed = False
        i = 0
        while i < len(parts) and time.monotonic() < deadline:
            cand = parts[:i] + parts[i + chunk :]
            if cand and pred(join(cand)):
                parts = cand
                removed = True
            else:
                i += chunk
        if removed:
            n = max(n - 1, 2)
        elif chunk == 1:
            break
        else:
            n = min(n * 2, len(parts))
    return parts


def shrink_text(text: str, pred, budget_s: float = 20.0) -> str:
    """smallest text (found within budget) for which pred(text) is still true"""
    deadline = time.monotonic() + budget_s
    if not pred(text):
        return text
    lines = text.splitlines(keepends=True)
    if len(lines) > 1:
        lines = _ddmin(lines, "".join, pred, deadline)
        text = "".join(lines)
    toks = re.findall(r"\w+|\s+|[^\w\s]", text)
    if len(toks) > 1:
        toks = _ddmin(toks, "".join, pred, deadline)
        text = "".join(toks)
    if len(text) <= 80:
        chars = _ddmin(list(text), "".join, pred, deadline)
        text = "".join(chars)
    return text


def shrink_case(case: dict, fields, still_fails, budget_s: float = 20.0) -> dict:
    """minimise the text fields of a case dict, keeping still_fails(case) true"""
    case = dict(case)
    for f in fields:
        if isinstance(case.get(f), str):

            def pred(t, f=f):
                c = dict(case)
                c[f] = t
                try:
                    return bool(still_fails(c))
                except Exception:
                    return False

            case[f] = shrink_text(case[f], pred, budget_s)
    return case
