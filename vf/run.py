"""bin/check <ID> [--tier quick|thorough] [--replay PATH] [--workers N]

exit 0: held on everything explored (KNOWN-FINDING lines possible)
exit 1: VIOLATION property=<ID> replay=<path>
exit 2: harness error
"""

from __future__ import annotations

import argparse
import glob
import hashlib
import json
import os
import subprocess
import sys
import tempfile
import time
from collections import Counter

from . import known
from .common import VERIF_DIR

SCHEMA = "/root/.vp/EVIDENCE.schema.json"
LOCAL_SCHEMA = os.path.join(VERIF_DIR, "vf", "EVIDENCE.schema.json")


def eprint(*a):
    print(*a, file=sys.stderr, flush=True)


def validate_evidence(ev: dict):
    path = SCHEMA if os.path.exists(SCHEMA) else LOCAL_SCHEMA
    try:
        import jsonschema
    except ImportError:
        jsonschema = None
    if jsonschema is not None and os.path.exists(path):
        with open(path) as f:
            jsonschema.validate(ev, json.load(f))
        return
    cov = ev["coverage"]
    for key in ("property_id", "tier", "seed", "level", "coverage", "wall_s"):
        assert key in ev, key
    if ev["level"] in ("exploration", "fault_enumeration"):
        assert cov["evaluations"] >= 1 and cov["distinct_nontrivial"] >= 2 and cov["samples"] and isinstance(cov["rule"], str)


def run_worker_replay(pid: str, cases: list, timeout: float = 600.0):
    with tempfile.TemporaryDirectory(prefix="vf-replay-") as td:
        inp, outp = os.path.join(td, "in.json"), os.path.join(td, "out.json")
        with open(inp, "w") as f:
            json.dump(cases, f)
        p = subprocess.run([sys.executable, "-m", "vf.worker", "replay", pid, inp, outp], timeout=timeout, capture_output=True, text=True)
        if p.returncode != 0 or not os.path.exists(outp):
            eprint(p.stderr[-4000:])
            raise RuntimeError(f"replay worker failed rc={p.returncode}")
        with open(outp) as f:
            return json.load(f)


def save_violation(pid: str, slot: dict) -> str:
    d = os.path.join(VERIF_DIR, "out", "violations", pid)
    os.makedirs(d, exist_ok=True)
    body = {"property": pid, "signature": slot["signature"], "case": slot["case"], "detail": slot.get("detail"), "count": slot.get("count", 1)}
    text = json.dumps(body, ensure_ascii=False, indent=1, default=repr)
    name = hashlib.sha1(text.encode("utf-8", "surrogatepass")).hexdigest()[:16] + ".json"
    path = os.path.join(d, name)
    with open(path, "w", encoding="utf-8", errors="surrogatepass") as f:
        f.write(text)
    return path


def load_case_file(path: str):
    with open(path, encoding="utf-8", errors="surrogatepass") as f:
        data = json.load(f)
    if isinstance(data, dict) and "case" in data:
        return data["case"]
    return data


def main(argv=None):
    ap = argparse.ArgumentParser()
    ap.add_argument("pid")
    ap.add_argument("--tier", default=os.environ.get("VERIF_TIER") or "quick", choices=["quick", "thorough"])
    ap.add_argument("--replay")
    ap.add_argument("--workers", type=int, default=int(os.environ.get("VERIF_WORKERS", "16")))
    ap.add_argument("--no-search", action="store_true")
    args = ap.parse_args(argv)
    pid = args.pid.upper()
    try:
        seed = int(os.environ.get("VERIF_SEED", "1") or "1")
    except ValueError:
        seed = 1
    try:
        return _main(pid, args, seed)
    except SystemExit:
        raise
    except BaseException as e:  # noqa: BLE001
        import traceback

        traceback.print_exc()
        eprint(f"HARNESS-ERROR property={pid} {type(e).__name__}: {e}")
        return 2


def _main(pid, args, seed):
    t0 = time.monotonic()
    from .worker import load_prop

    mod = load_prop(pid)
    meta = mod.META
    import shutil

    if not args.replay:
        shutil.rmtree(os.path.join(VERIF_DIR, "out", "violations", pid), ignore_errors=True)
    violations = []  # slots
    known_lines = {}

    # ---- explicit replay ------------------------------------------------------------------
    if args.replay:
        case = load_case_file(args.replay)
        res = run_worker_replay(pid, [case])[0]
        for fid, sig in res["known"].items():
            print(f"KNOWN-FINDING: property={pid} {fid} {sig}")
        if res["failures"]:
            for f in res["failures"]:
                print(f"VIOLATION property={pid} replay={args.replay}")
                print(f"  signature={f['signature']} detail={json.dumps(f['detail'], default=repr)[:600]}")
            return 1
        print(f"replay: property={pid} held on {args.replay}")
        return 0

    # ---- replay tier ----------------------------------------------------------------------
    regress = sorted(glob.glob(os.path.join(VERIF_DIR, "replays", pid, "*.json")))
    findings = known.open_findings(pid)
    cases = [load_case_file(p) for p in regress] + [f.get("examples", {}).get(pid, f["example"]) for f in findings]
    replayed = 0
    stale = []
    if cases:
        res = run_worker_replay(pid, cases)
        replayed = len(res)
        for i, r in enumerate(res):
            if i < len(regress):
                for f in r["failures"]:
                    violations.append({"signature": f["signature"], "case": r["case"], "detail": f["detail"], "count": 1, "from": regress[i]})
            else:
                fnd = findings[i - len(regress)]
                if fnd["id"] in r["known"]:
                    known_lines[fnd["id"]] = f"KNOWN-FINDING: property={pid} {fnd['id']} {fnd['title']} (example reproduces: {r['known'][fnd['id']]})"
                else:
                    stale.append(fnd["id"])
                # a listed example that fails in a way its matcher does not cover is a new violation
                for f in r["failures"]:
                    violations.append({"signature": f["signature"], "case": r["case"], "detail": f["detail"], "count": 1})

    # ---- search tier ----------------------------------------------------------------------
    merged = {
        "evaluations": 0,
        "nontrivial": set(),
        "samples": [],
        "hist": Counter(),
        "excluded": Counter(),
        "inconclusive": Counter(),
        "known_hits": {},
        "notes": {},
    }
    buckets = {}
    n = max(1, min(args.workers, getattr(mod, "MAX_WORKERS", 16)))
    if not args.no_search:
        with tempfile.TemporaryDirectory(prefix=f"vf-{pid}-") as td:
            procs = []
            for k in range(n):
                outp = os.path.join(td, f"w{k}.json")
                errp = os.path.join(td, f"w{k}.err")
                ef = open(errp, "w")
                p = subprocess.Popen(
                    [sys.executable, "-m", "vf.worker", "search", pid, args.tier, str(seed), str(k), str(n), outp],
                    stdout=ef,
                    stderr=ef,
                    env=dict(os.environ, VERIF_WORKER_TMP=td),
                )
                procs.append((k, p, outp, errp, ef))
            hard = float(os.environ.get("VERIF_HARD_TIMEOUT", meta.get("hard_timeout", {}).get(args.tier, 3600 if args.tier == "quick" else 6 * 3600)))
            deadline = time.monotonic() + hard
            broken = []
            for k, p, outp, errp, ef in procs:
                try:
                    p.wait(timeout=max(1.0, deadline - time.monotonic()))
                except subprocess.TimeoutExpired:
                    p.kill()
                    p.wait()
                    broken.append((k, "hard timeout"))
                ef.close()
                if p.returncode != 0 or not os.path.exists(outp):
                    with open(errp) as f:
                        tail = f.read()[-3000:]
                    broken.append((k, f"rc={p.returncode}\n{tail}"))
                    continue
                with open(outp) as f:
                    d = json.load(f)
                merged["evaluations"] += d["evaluations"]
                merged["nontrivial"].update(d["nontrivial"])
                merged["samples"].extend(d["samples"])
                merged["hist"].update(d["hist"])
                merged["excluded"].update(d["excluded"])
                merged["inconclusive"].update(d["inconclusive"])
                for key, v in d.get("notes", {}).items():
                    merged["notes"].setdefault(key, v)
                for fid, v in d["known_hits"].items():
                    slot = merged["known_hits"].setdefault(fid, {"count": 0, "example": v["example"], "signature": v["signature"]})
                    slot["count"] += v["count"]
                for slot in d["failures"]:
                    cur = buckets.get(slot["signature"])
                    if cur is None:
                        buckets[slot["signature"]] = slot
                    else:
                        cur["count"] += slot["count"]
                        if slot["size"] < cur["size"]:
                            cnt = cur["count"]
                            buckets[slot["signature"]] = dict(slot, count=cnt)
            if broken:
                for k, why in broken[:2]:
                    eprint(f"worker {k} failed: {why[-1500:]}")
                eprint(f"HARNESS-ERROR property={pid} {len(broken)} worker(s) failed")
                return 2
    violations.extend(buckets.values())

    # ---- report ---------------------------------------------------------------------------
    for fid, v in merged["known_hits"].items():
        if fid not in known_lines:
            title = next((f["title"] for f in findings if f["id"] == fid), "")
            known_lines[fid] = f"KNOWN-FINDING: property={pid} {fid} {title} (seen {v['count']}x in search, e.g. {v['signature']})"
    for line in known_lines.values():
        print(line)
    for fid in stale:
        print(f"note: listed finding {fid} did not reproduce from its example on this tree")

    # samples: spread over workers, cap 10
    samples = merged["samples"]
    if len(samples) > 10:
        step = len(samples) / 10.0
        samples = [samples[int(i * step)] for i in range(10)]
    wall = time.monotonic() - t0
    level = meta.get("level", "exploration")
    cov = {
        "evaluations": merged["evaluations"] + replayed,
        "distinct_nontrivial": len(merged["nontrivial"]),
        "rule": meta["rule"],
        "samples": samples,
        "replayed_inputs": replayed,
        "histogram": dict(sorted(merged["hist"].items())),
        "excluded_by_construction": dict(sorted(merged["excluded"].items())),
        "inconclusive": dict(sorted(merged["inconclusive"].items())),
        "known_findings_hit": {fid: v["count"] for fid, v in merged["known_hits"].items()},
        "workers": n,
    }
    cov.update(merged["notes"])
    if meta.get("exhaustive_note"):
        cov["exhaustive_note"] = meta["exhaustive_note"]
    if level == "translation_validation":
        cov.setdefault("programs", 0)
        cov["disagreements_checked"] = merged["evaluations"]  # every (pair, rule method, hash seed) comparison
    ev = {
        "property_id": pid,
        "tier": args.tier,
        "seed": seed,
        "level": level,
        "coverage": cov,
        "assumptions": meta.get("assumptions", []),
        "wall_s": round(wall, 2),
        "violations": len(violations),
    }
    text = json.dumps(ev, ensure_ascii=True, indent=1, default=repr)
    ev = json.loads(text)
    if args.no_search:  # debugging aid: replay tier only, evidence untouched
        for slot in violations:
            print(f"VIOLATION property={pid} replay={slot.get('from') or save_violation(pid, slot)}")
            print(f"  signature={slot['signature']}")
        print(f"property={pid} replay tier only: {replayed} inputs, violations={len(violations)}")
        return 1 if violations else 0
    try:
        validate_evidence(ev)
    except Exception as e:  # noqa: BLE001
        eprint(f"HARNESS-ERROR property={pid} evidence does not validate: {str(e)[:500]}")
        if not violations:
            return 2
    # (bin/seedtest points this elsewhere: a run against a deliberately broken copy must not replace the evidence of the real tree)
    evdir = os.environ.get("VERIF_EVIDENCE_DIR") or os.path.join(VERIF_DIR, "evidence")
    os.makedirs(evdir, exist_ok=True)
    with open(os.path.join(evdir, f"{pid}.json"), "w") as f:
        f.write(text + "\n")

    print(
        f"property={pid} tier={args.tier} seed={seed} evaluations={cov['evaluations']} "
        f"distinct_nontrivial={cov['distinct_nontrivial']} violations={len(violations)} wall={wall:.1f}s"
    )
    if violations:
        for slot in sorted(violations, key=lambda s: s.get("size", 0)):
            path = slot.get("from") or save_violation(pid, slot)
            print(f"VIOLATION property={pid} replay={path}")
            print(f"  signature={slot['signature']} count={slot.get('count', 1)} detail={json.dumps(slot.get('detail'), default=repr)[:500]}")
        return 1
    return 0


if __name__ == "__main__":
    sys.exit(main())
