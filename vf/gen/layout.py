"""G2: layout variants of a valid program.

The same significant tokens (CPython's tokenize) are re-emitted with drawn layout.  A variant is
only used if ast.parse(variant) dumped without positions equals the original's, so the mutator
cannot silently change the program; the oracle for the variant is then CPython on the variant.
"""

from __future__ import annotations

import ast
import io
import tokenize as pytok

FSTART = getattr(pytok, "FSTRING_START", -1)
FEND = getattr(pytok, "FSTRING_END", -2)


def py_tokens(src: str):
    return list(pytok.generate_tokens(io.StringIO(src).readline))


def variant(rnd, src: str) -> tuple[str, set] | None:
    """a layout variant of src and the set of layout features applied, or None"""
    try:
        toks = py_tokens(src)
    except (pytok.TokenError, SyntaxError, IndentationError, ValueError):
        return None
    feats = set()
    use_tabs = rnd.random() < 0.25
    unit = "\t" if use_tabs else rnd.choice(["    ", "  ", " ", "        "])
    crlf = rnd.random() < 0.15
    drop_final_nl = rnd.random() < 0.2
    p_space = rnd.choice([0.0, 0.2, 0.6])
    p_nl_in_bracket = rnd.choice([0.0, 0.1, 0.3])
    p_backslash = rnd.choice([0.0, 0.0, 0.08])
    p_comment = rnd.choice([0.0, 0.15])
    p_blank = rnd.choice([0.0, 0.2])
    if use_tabs:
        feats.add("tabs")
    if crlf:
        feats.add("crlf")

    out = []
    depth = 0  # bracket depth
    level = 0  # indentation level
    at_line_start = True
    in_fstring = 0
    prev = None
    sig = [t for t in toks if t.type not in (pytok.COMMENT, pytok.NL)]
    for idx, t in enumerate(sig):
        ty, s = t.type, t.string
        if ty == pytok.INDENT:
            level += 1
            continue
        if ty == pytok.DEDENT:
            level -= 1
            continue
        if ty == pytok.ENDMARKER:
            break
        if ty == pytok.NEWLINE:
            if rnd.random() < p_comment:
                out.append(rnd.choice(["  # c", "#c", " # x = (", "\t# 'q"]))
                feats.add("trailing-comment")
            out.append("\n")
            at_line_start = True
            prev = None
            if rnd.random() < p_blank:
                out.append(rnd.choice(["\n", "   \n", "# full line comment\n", "\t\n", "        # deep comment\n", "\f\n"]))
                feats.add("blank-or-comment-line")
            continue
        if at_line_start:
            if level == 0 and rnd.random() < 0.03:
                out.append("\f")
                feats.add("formfeed-line-start")
            out.append(unit * level)
            at_line_start = False
        elif in_fstring:
            # inside an f-string literal: copy verbatim (original spacing)
            if prev is not None and prev.end[0] == t.start[0]:
                out.append(" " * (t.start[1] - prev.end[1]))
        else:
            had_space = prev is not None and (prev.end != t.start)
            sep = ""
            if depth > 0 and rnd.random() < p_nl_in_bracket:
                sep = rnd.choice(["\n", "\n    ", "  # cmt\n  ", "\n\n\t", "\n# c\n"])
                feats.add("newline-in-bracket")
            elif depth == 0 and rnd.random() < p_backslash:
                sep = rnd.choice([" \\\n", "\\\n    ", " \\\n\t"])
                feats.add("backslash-continuation")
            elif had_space:
                sep = rnd.choice([" ", " ", "  ", "\t", " \t ", " \f"]) if rnd.random() < 0.3 else " "
                if sep != " ":
                    feats.add("odd-spacing")
            elif rnd.random() < p_space:
                sep = " "
                feats.add("extra-space")
            if prev is not None and prev.string == "@" and s == "(" and sep == "":
                sep = " "  # never create the '@(' digraph
            out.append(sep)
        if ty == FSTART:
            in_fstring += 1
        elif ty == FEND:
            in_fstring -= 1
        if ty == pytok.OP and not in_fstring:
            if s in "([{":
                depth += 1
            elif s in ")]}":
                depth -= 1
        out.append(s)
        prev = t
    text = "".join(out)
    if drop_final_nl and text.endswith("\n"):
        text = text.rstrip("\n")
        feats.add("no-final-newline")
        if rnd.random() < 0.3:
            text += "  # trailing"
            feats.add("no-final-newline-comment")
    if crlf:
        text = text.replace("\n", "\r\n")
    if text == src:
        return None
    try:
        a = ast.dump(ast.parse(src))
        b = ast.dump(ast.parse(text))
    except (SyntaxError, ValueError, RecursionError):
        return None
    if a != b:
        return None
    return text, feats
