"""G8: random well-formed grammars in pegen notation (own grammar AST, JSON-able).

item kinds: ["lit","'a'"] ["tok","NAME"] ["ref","r1"] ["grp", alts] ["opt", item] ["rep0", item] ["rep1", item]
            ["gather", sep_item, item] ["pos", item] ["neg", item] ["cut"] ["forced","'a'"]
alt  = [items: [[name|None, item], ...], action|None]       rule = [name, memo, alts]
"""

from __future__ import annotations


def L(s):
    return ["lit", f"'{s}'"]


TOKS = [L("a"), L("b"), L("c"), L(","), L("("), L(")"), ["tok", "NAME"], ["tok", "NUMBER"], ["lit", '"s"']]


def r_item(it):
    k = it[0]
    if k in ("lit", "tok", "ref"):
        return it[1]
    if k == "grp":
        return "(" + " | ".join(r_alt(a) for a in it[1]) + ")"
    if k == "opt":
        return "[" + r_item(it[1]) + "]"
    if k == "rep0":
        return r_atom(it[1]) + "*"
    if k == "rep1":
        return r_atom(it[1]) + "+"
    if k == "gather":
        return r_atom(it[1]) + "." + r_atom(it[2]) + "+"
    if k == "pos":
        return "&" + r_atom(it[1])
    if k == "neg":
        return "!" + r_atom(it[1])
    if k == "cut":
        return "~"
    if k == "forced":
        return "&&" + it[1]
    raise ValueError(k)


def r_atom(it):
    return r_item(it) if it[0] in ("lit", "tok", "ref", "grp") else "(" + r_item(it) + ")"


def r_alt(a):
    items, action = a
    s = " ".join((f"{n}=" if n else "") + r_item(i) for n, i in items)
    return s + (" { " + action + " }" if action else "")


def render(rules):
    out = ["@class TP", '@header """\nfrom typing import Any\nfrom peg_parser.subheader import Parser, memoize, memoize_left_rec, logger\n"""', '@trailer ""']
    for name, memo, alts in rules:
        out.append(f'{name}{" (memo)" if memo else ""}:')
        for a in alts:
            out.append("    | " + r_alt(a))
    return "\n".join(out) + "\n"


class GGen:
    def __init__(self, rnd, allow_forced=True, allow_known_broken=True):
        self.r = rnd
        self.allow_forced = allow_forced
        self.broken = allow_known_broken
        self.names = []
        self.shared_groups = []
        self.feats = set()
        self.rare_pending = False  # the keyword 'd' is still to be placed (exactly once, in one syntactic role)
        self.bare = None  # name of a rule that is a single action-free repetition/gather/group, referenced from operators

    def p(self, x):
        return self.r.random() < x

    def role(self, role, default):
        """the item for a syntactic role; once per grammar a role may get the hard keyword 'd', which then occurs nowhere
        else in the grammar: it is a keyword all the same (NAME must not match it), whatever construct mentions it"""
        if self.rare_pending and self.p(0.35):
            self.rare_pending = False
            self.feats.add(f"keyword-only-as:{role}")
            return L("d")
        return default

    def tok(self):
        return self.r.choice(TOKS)

    def group(self, i, depth):
        # helper-sharing bait: reuse an identical group, sometimes with a different action
        if self.shared_groups and self.p(0.3):
            self.feats.add("shared-group")
            g = self.r.choice(self.shared_groups)
            if self.p(0.5):
                # same items, different action: a helper shared by text alone would return the wrong value
                import copy
                import re

                g = copy.deepcopy(g)
                changed = False
                for a in g[1]:
                    if a[1]:
                        a[1] = re.sub(r"t\d", "t%d" % self.r.randint(0, 9), a[1], count=1).replace('("t', '("u', 1)
                        changed = True
                    elif len(g[1]) > 1 or len(a[0]) > 1:
                        named = [x for x in a[0] if x[1][0] not in ("pos", "neg", "cut", "forced")]
                        if named:
                            named[0][0] = "w1"
                            a[1] = '("w%d", w1)' % self.r.randint(0, 9)
                            changed = True
                if changed:
                    self.feats.add("shared-group-different-action")
            return g
        n_alts = self.r.randint(1, 3)
        alts = [self.alt(i, depth + 1, allow_left=False) for _ in range(n_alts)]
        if not self.broken:
            # D38: a single-alternative, single-item group with an action loses the action
            if len(alts) == 1 and len(alts[0][0]) == 1 and alts[0][1]:
                alts[0] = [alts[0][0], None]
                alts[0][0][0][0] = None
        g = ["grp", alts]
        if self.p(0.5) and '"ref"' not in __import__("json").dumps(g):
            # only reference-free groups are shared between rules: a reused reference could become a
            # left-recursive call in a position the design's well-formedness rules exclude
            self.shared_groups.append(g)
        if n_alts == 1:
            self.feats.add("single-alt-group")
        return g

    def consuming_item(self, i, depth):
        c = self.r.random()
        if c < 0.35 or depth > 2:
            return self.tok()
        if c < 0.55 and i + 1 < len(self.names):
            return ["ref", self.r.choice(self.names[i + 1 :])]
        if c < 0.65:
            self.feats.add("rep1")
            return ["rep1", self.simple_atom(i, depth + 1)]
        if c < 0.75:
            self.feats.add("gather")
            sep = self.r.choice([L(","), L("c"), L(","), ["tok", "NUMBER"], ["tok", "NAME"], ["lit", '"s"'], ["grp", [[[[None, L(",")]], None], [[[None, L("c")]], None]]]])
            sep = self.role("gather-separator", sep)
            if sep[0] != "lit":
                self.feats.add("gather-with-non-literal-separator")
            if sep == L("d") and self.p(0.6):
                return ["gather", sep, ["tok", "NAME"]]
            return ["gather", sep, self.simple_atom(i, depth + 1)]
        if c < 0.9:
            self.feats.add("group")
            return self.group(i, depth)
        return self.tok()

    def simple_atom(self, i, depth):
        c = self.r.random()
        if self.bare and self.names[i] != self.bare and self.p(0.3):
            self.feats.add("ref-to-bare-rule-under-operator")
            return ["ref", self.bare]
        if self.allow_forced and self.p(0.06):
            # a forced token behind a group as the target of a lookahead / repetition / gather: it has to be tried each
            # time the target is, not once while the call is set up
            self.feats.add("grouped-forced-under-operator")
            return ["grp", [[[[None, ["forced", self.r.choice(["'a'", "'b'", "','"])]]], None]]]
        if c < 0.5 or depth > 2:
            return self.tok()
        if c < 0.7 and i + 1 < len(self.names):
            return ["ref", self.r.choice(self.names[i + 1 :])]
        self.feats.add("group")
        return self.group(i, depth)

    def any_item(self, i, depth):
        c = self.r.random()
        if c < 0.5:
            return self.consuming_item(i, depth)
        if c < 0.62:
            self.feats.add("opt")
            return ["opt", self.role("optional", self.consuming_item(i, depth + 1))]
        if c < 0.70:
            self.feats.add("rep0")
            return ["rep0", self.role("repetition", self.simple_atom(i, depth + 1))]
        if c < 0.78:
            self.feats.add("pos-lookahead")
            return ["pos", self.role("lookahead", self.simple_atom(i, depth + 1))]
        if c < 0.86:
            self.feats.add("neg-lookahead")
            return ["neg", self.role("lookahead", self.simple_atom(i, depth + 1))]
        if c < 0.91:
            self.feats.add("cut")
            return ["cut"]
        if c < 0.95 and self.allow_forced:
            self.feats.add("forced")
            return ["forced", self.role("forced", L(self.r.choice(["a", "b", ","])))[1]]
        return self.consuming_item(i, depth)

    def alt(self, i, depth, allow_left=True, left_to=None):
        items = []
        k = self.r.randint(1, 3)
        if left_to is not None:
            items.append(["ref", left_to])
            items.append(self.consuming_item(i, depth))
        elif allow_left and depth == 0 and self.p(0.25):
            self.feats.add("direct-left-recursion")
            items.append(["ref", self.names[i]])
            items.append(self.consuming_item(i, depth))
        else:
            items.append(self.consuming_item(i, depth) if self.p(0.8) else self.any_item(i, depth))
        for _ in range(k - 1):
            it = self.any_item(i, depth)
            if self.p(0.1) and any(x[0] in ("lit", "tok", "rep1", "gather") for x in items):
                self.feats.add("recursion-after-token")
                it = ["ref", self.r.choice(self.names[: i + 1])]
            items.append(it)
        if not any(x[0] in ("lit", "tok", "rep1", "gather", "ref", "grp") for x in items):
            items.append(self.tok())
        # lookaheads/cut/forced as the very first item of an alternative that continues with a left-recursive ref are avoided by construction
        named, cnt = [], 0
        for it in items:
            if it[0] in ("pos", "neg", "cut", "forced"):
                named.append([None, it])
                continue
            if self.p(0.6):
                cnt += 1
                named.append([f"v{cnt}", it])
            else:
                named.append([None, it])
        action = None
        if self.p(0.6):
            vs = [n for n, _ in named if n]
            action = '("t%d", %s)' % (self.r.randint(0, 9), ", ".join(vs)) if vs else '("t%d",)' % self.r.randint(0, 9)
            self.feats.add("action")
        else:
            named = [[None, it] for _, it in named]
        return [named, action]

    def grammar(self):
        n = self.r.randint(1, 5)
        self.names = [f"r{i}" for i in range(1, n + 1)]
        rules = []
        indirect = None
        self.rare_pending = self.p(0.25)
        if n >= 2 and self.p(0.25):
            self.bare = self.names[-1]
        if n >= 2 and self.p(0.2):
            # indirect left recursion: r_i -> r_j ... and r_j -> r_i ...
            a = self.r.randrange(n - 1)
            b = self.r.randrange(a + 1, n)
            indirect = (a, b)
            self.feats.add("indirect-left-recursion")
        for i, nm in enumerate(self.names):
            shape = self.r.random()
            if shape < 0.15:
                # all alternatives single items without actions: inlined through seq_alts
                self.feats.add("inlinable-rule")
                alts = [[[[None, self.role("inlined-choice", self.consuming_item(i, 1))]], None] for _ in range(self.r.randint(2, 4))]
                if self.allow_forced and self.p(0.3):
                    self.feats.add("forced-in-inlinable-rule")
                    alts.insert(self.r.randint(1, len(alts)), [[[None, ["forced", self.r.choice(["'a'", "'b'", "','"])]]], None])
                elif self.allow_forced and self.p(0.3):
                    # the same behind a group (and behind an optional / a lookahead-free nesting of groups): still one item, no action
                    self.feats.add("grouped-forced-in-inlinable-rule")
                    f = ["grp", [[[[None, ["forced", self.r.choice(["'a'", "'b'", "','"])]]], None]]]
                    if self.p(0.3):
                        f = ["grp", [[[[None, f]], None]]]
                    alts.insert(self.r.randint(1, len(alts)), [[[None, f]], None])
            elif nm == self.bare:
                # one alternative, one action-free item: the rule's value is the item's own value, and its failure
                # (None) must stay distinguishable from an empty match wherever the rule is used under an operator
                self.feats.add("bare-rule")
                t = self.tok()
                item = self.r.choice([["rep1", t], ["rep1", ["grp", [[[[None, t], [None, self.tok()]], None]]]], ["gather", L(","), t], ["grp", [[[[None, t]], None], [[[None, self.tok()]], None]]], ["rep1", t]])
                alts = [[[[None, item]], None]]
            else:
                alts = [self.alt(i, 0) for _ in range(self.r.randint(1, 3))]
            if indirect and i == indirect[0]:
                alts.insert(0, self.alt(i, 0, left_to=self.names[indirect[1]]))
            if indirect and i == indirect[1]:
                alts.insert(0, self.alt(i, 0, left_to=self.names[indirect[0]]))
            if all(a[0][0][1][0] == "ref" and a[0][0][1][1] in self.names[: i + 1] for a in alts) or (indirect and i in indirect):
                alts.append([[[None, self.tok()]], None])
            if not self.broken:
                # D37: a rule that is a single group loses its outer action (Rule.flatten)
                if len(alts) == 1 and len(alts[0][0]) == 1 and alts[0][0][0][1][0] == "grp":
                    alts.append([[[None, self.tok()]], None])
            if self.p(0.15):
                # helper-sharing bait: the same items under two different actions (and once without action) in one alternative
                self.feats.add("same-items-different-actions")
                items = [[None, self.tok()] for _ in range(self.r.randint(1, 2))]
                items[0][0] = "q"
                g1 = ["grp", [[[list(i) for i in items], '("g1", q)']]]
                g2 = ["grp", [[[list(i) for i in items], '("g2", q)']]]
                g3 = ["grp", [[[[None, i[1]] for i in items] + [[None, self.tok()]], None]]]
                third = self.r.choice([g3, ["rep1", g2], ["opt", g1]])
                alts.insert(self.r.randint(0, len(alts)), [[["x", g1], [None, self.r.choice([L(","), L("c")])], ["y", g2], ["z", third]], '("pair", x, y, z)'])
            memo = self.p(0.3)
            if memo:
                self.feats.add("memo")
            rules.append([nm, memo, alts])
        if not self.rare_pending and any(f.startswith("keyword-only-as:") for f in self.feats) and '"NAME"' not in __import__("json").dumps(rules):
            rules[-1][2].append([[[None, ["tok", "NAME"]]], None])  # something the unreserved keyword could be mistaken for
        # the end of input is written ENDMARKER or '$' (the metagrammar has alternatives of its own for the latter),
        # sometimes behind a cut: once r1 matched, only the end of input may follow
        end = ["tok", "$"] if self.p(0.4) else ["tok", "ENDMARKER"]
        first = [["e", ["ref", "r1"]], [None, end]]
        if self.p(0.3):
            self.feats.add("cut-before-end-of-input")
            first.insert(1, [None, ["cut"]])
        if end[1] == "$":
            self.feats.add("dollar-for-endmarker")
        rules.insert(0, ["start", False, [[first, '("S", e)'], [[["e", ["ref", "r1"]]], '("P", e)']]])
        return rules


def falsy_possible(rules) -> bool:
    """an alternative that can succeed with a falsy value (pegen's convention forbids it)"""

    def chk_alts(alts):
        for items, action in alts:
            vis = [it for _, it in items if it[0] not in ("pos", "neg", "cut")]  # (a forced token is a token: truthy)
            if not action and len(vis) == 1 and vis[0][0] in ("opt", "rep0"):
                return True
            if not action and not vis:
                return True
            for _, it in items:
                if chk_item(it):
                    return True
        return False

    def chk_item(it):
        if it[0] == "grp":
            return chk_alts(it[1])
        if it[0] in ("opt", "rep0", "rep1", "pos", "neg"):
            return chk_item(it[1])
        if it[0] == "gather":
            return chk_item(it[1]) or chk_item(it[2])
        return False

    return any(chk_alts(a) for _, _, a in rules)


def operators(rules) -> set:
    ops = set()

    def walk(it):
        ops.add(it[0])
        if it[0] == "grp":
            for items, _ in it[1]:
                for _, i in items:
                    walk(i)
        elif it[0] in ("opt", "rep0", "rep1", "pos", "neg"):
            walk(it[1])
        elif it[0] == "gather":
            walk(it[1])
            walk(it[2])

    for _, _, alts in rules:
        for items, _ in alts:
            for _, i in items:
                walk(i)
    return ops - {"lit", "tok", "ref"}
