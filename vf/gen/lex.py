"""G6: lexical fragments -- numbers, strings, operator runs, adjacency, indentation, continuations."""

from __future__ import annotations

import itertools
import token as pytoken

PY_OPS = sorted(pytoken.EXACT_TOKEN_TYPES)  # every operator/delimiter spelling of this CPython
XONSH_CHARS = "$?!`"
OP_CHARS = "!%&()*+,-./:;<=>@[]^{|}~"

DIGITS = ["0", "1", "7", "9", "10", "007", "1_0", "1__0", "1_", "_1", "0_7", "00_0", "123"]
NUMBERS_VALID = [
    "0x_ff", "0B_1", "0o_644", "0X_A_b", "0b_1_0", "0", "1", "42", "1_000", "0x1F", "0Xab_cd", "0o17", "0O7_7", "0b101", "0B1_0", "00", "0_0", "000",
    "1.", ".5", "1.5", "0.0", "1e5", "1E-5", "1e+5", "1.5e10", "1_0.0_1e-1_0", ".5e1", "1.e3", "0e0", "0.e0", "00.5", "09.5", "09e1",
    "1j", "1J", "1.5j", "1e3j", ".5J", "0j", "1_0j", "09j", "1.j", "1.e-3J", "0xfj",
]
NUMBERS_NEAR = ["1__0", "1_", "0_7", "0377", "1e", "1e+", "0x", "0b2", "0o8", "1.2.3", "1..2", "0x_1", "0b_", "1_.5", "1._5", "1e_5", "1e5_", "0xg", "1.5ee", "09", "1a", "1_a", "0b12", "0o18", "1.5.j", "1jj", "1ej", "0x1p3", "1if", "0or", "1else", "1and", "0in", "1is", "2for", "0x1for", "1_0if", "1.if", "1e5if", "0b1or", "1jif", "1not"]

STRING_PREFIXES = ["", "r", "R", "b", "B", "u", "U", "rb", "rB", "Rb", "RB", "br", "bR", "Br", "BR"]
BAD_PREFIXES = ["ur", "ub", "bu", "rr", "bb", "rbr", "x", "rbb", "uu", "ru"]
QUOTES = ["'", '"', "'''", '"""']
STR_BODIES = ["", "a", "a b", "\\n", "\\\\", "\\'", '\\"', "{x}", "#", "a\\\nb", "é", "$X", "`", "?", "\\", "''", '"']

EMBED = ["a{r}b", "a{r}", "{r}b", "f({r}b)", "a[{r}]", "a{r}(b)", "({r})", "a{r}b:c", "x = a{r}b", "def f(a{r}b): pass", "[a{r}b for a in b]", "lambda a{r}b: 0", "{{a{r}b}}", "a[b{r}c]", "f(a{r})", "a if b{r}c else d", "@a{r}b\ndef f(): pass", "a{r}1", "1{r}a", "a{r}'s'", "f(*a{r}b)"]


def operator_runs(k: int):
    return ("".join(t) for t in itertools.product(PY_OPS, repeat=k))


def all_char_runs(max_len: int = 3):
    alphabet = sorted(set(OP_CHARS + XONSH_CHARS))
    for n in range(1, max_len + 1):
        for t in itertools.product(alphabet, repeat=n):
            yield "".join(t)


def strings_product():
    for p in STRING_PREFIXES + BAD_PREFIXES:
        for q in QUOTES:
            for b in STR_BODIES:
                if len(q) == 1 and q in b and ("\\" + q) not in b:
                    continue
                yield f"{p}{q}{b}{q}"


def indentation_program(rnd) -> str:
    """random block structure with mixed indentation characters, comments and blank lines"""
    out = []
    stack = [""]
    n = rnd.randint(2, 9)
    for i in range(n):
        act = rnd.choice(["same", "same", "indent", "dedent", "dedent2", "blank", "comment", "cont", "bracket", "lonebackslash"])
        if act == "indent" and out and not out[-1].rstrip().endswith(":"):
            act = "same"
        if out and out[-1].rstrip().endswith(":") and act not in ("blank", "comment"):
            act = "indent"
        if act == "indent":
            unit = rnd.choice(["  ", "    ", "\t", " ", "        ", " \t", "\t ", "\f  ", "   "])
            stack.append(stack[-1] + unit)
        elif act == "dedent" and len(stack) > 1:
            stack.pop()
        elif act == "dedent2" and len(stack) > 2:
            stack.pop()
            stack.pop()
        ind = stack[-1]
        if act == "blank":
            out.append(rnd.choice(["", "   ", "\t", "\f", " \f "]))
            continue
        if act == "comment":
            out.append(rnd.choice(["", " ", "    ", "\t", ind, ind + "  "]) + "# c")
            continue
        if act == "lonebackslash":
            out.append(rnd.choice([ind, "", "  "]) + rnd.choice(["\\", "a = 1 \\", "\\"]))
            if rnd.random() < 0.5:
                out.append(rnd.choice(["", "  ", "# c", ind + "b"]))
            continue
        if act == "cont":
            out.append(ind + "x = 1 + \\")
            out.append(rnd.choice(["", "  ", "\t", ind]) + "2")
            continue
        if act == "bracket":
            out.append(ind + "y = (1,")
            out.append(rnd.choice(["", " ", "\t\t", "# c"]))
            out.append(rnd.choice(["", "  ", "\t"]) + "2)")
            continue
        out.append(ind + rnd.choice(["a", "a = 1", "if a:", "while b:", "for i in j:", "def f():", "pass", "class C:", "else:", "try:", "a; b", "if a: b"]))
    text = "\n".join(out)
    return text + rnd.choice(["\n", "", "\n\n", "\n  ", "\n# c", "\n\t\n"])


# identifiers: characters that are XID_Continue but not matched by the regex class \\w, plus ordinary ones
ID_ODD = ["a\u00b7b", "x\u0301", "a\u0387", "e\u20dd", "A\u1369", "v\ufe0f", "n\U000e0100", "k\u19da", "\u2118x", "\u212ea", "a\u0300\u0301", "\u1885a"]
ID_OK = ["\u00e9", "na\u00efve", "\u03c0", "\u540d\u524d", "\u00df1", "_\u00e9", "x\u00b2" , "\uff41", "\u00aa", "\u2160"]


# ---- adjacent string-literal pieces (implicit concatenation): every ordered pair / triple of kinds ----------------
CONCAT_PIECES_PY = ["'a'", "U'v'", "b'b'", "f'{a}'", "f'{a}t'", "f't{a}'", "f't'", "u'u'", "r'\\d'", "rb'x'", "''", "f''", "b''", '"""m\nn"""', "f'''{a}\nk'''"]
CONCAT_PIECES_XONSH = ["p'p'", "pf'{a}'", "pr'q'", "pf't{a}t'"]


def string_concat_matrix(xonsh: bool = False, upto: int = 3):
    """all sequences of 2..upto adjacent pieces, joined by one blank"""
    import itertools

    pool = CONCAT_PIECES_PY + (CONCAT_PIECES_XONSH if xonsh else [])
    for n in range(2, upto + 1):
        for combo in itertools.product(pool, repeat=n):
            if xonsh and n == 3 and not any(c in CONCAT_PIECES_XONSH for c in combo):
                continue  # the pure-Python triples are already in the non-xonsh matrix
            yield " ".join(combo)
