"""G1: Python 3.12 source text from a weighted text grammar.

Written against the random.Random API so the same code runs on a Hypothesis-managed Random
(st.randoms(use_true_random=False): every choice is a Hypothesis draw) or on a seeded PRNG.
No validity precondition is guaranteed: CPython decides membership.
"""

from __future__ import annotations

import keyword

ASCII_NAMES = ["a", "b", "c", "x", "y", "z", "foo", "bar", "_", "_x", "__y__", "self", "cls", "match", "case", "type", "T", "Ts", "P", "x1", "print", "i", "j", "k", "obj", "val"]
NONASCII_NAMES = ["é", "naïve", "ñ", "π", "Δx", "名前", "ß1", "ŝ", "ｗｉｄｔｈ", "ﬁ", "ªb", "xⅣ", "ﬁle", "µ", "ｏｓ", "ℌ", "ſ", "ǅ"]
BINOPS = ["+", "-", "*", "/", "//", "%", "@", "**", "<<", ">>", "&", "|", "^"]
CMPOPS = ["<", ">", "<=", ">=", "==", "!=", "in", "not in", "is", "is not"]
AUGOPS = ["+=", "-=", "*=", "/=", "//=", "%=", "@=", "**=", "<<=", ">>=", "&=", "|=", "^="]
UNOPS = ["-", "+", "~", "not "]

INTS = ["0x_ff", "0B_1", "0o_644", "0X_A_b", "0", "1", "7", "42", "1_000", "0x1F", "0XaB_c", "0o17", "0O7_7", "0b101", "0B1_0", "00", "0_0", "123456789012345678901234567890", "9_9"]
FLOATS = ["1.", ".5", "1.5", "1e5", "1E-5", "1.5e+10", "1_0.0_1e-1_0", "0.0", "1e0", "3.14_15", "0e0", "1.e3", ".0_1"]
IMAGS = ["1j", "1.5J", "1e3j", ".5j", "0j", "1_0j", "1.J"]

STR_BODIES_PLAIN = ["", "a", "abc", "hello world", "x y", "%s", "{}", "{a}", "a,b", "(", ")]", "#c", "$X", "a?b", "`x`", "p"]
STR_ESCAPES = ["\\n", "\\t", "\\\\", "\\'", '\\"', "\\x41", "\\101", "\\0", "\\u00e9", "\\U0001F600", "\\N{DIGIT ONE}", "\\a", "\\\n"]
STR_NONASCII = ["é", "ñandú", "日本", "😀", "á"]


class PyGen:
    def __init__(self, rnd, nonascii: bool = False, max_depth: int = 4, fstrings: bool = False, fstr_gen=None):
        self.r = rnd
        self.nonascii = nonascii
        self.max_depth = max_depth
        self.fstrings = fstrings
        self.fstr_gen = fstr_gen
        self.features: set[str] = set()

    # ---- helpers ---------------------------------------------------------------------------
    def p(self, prob: float) -> bool:
        return self.r.random() < prob

    def pick(self, seq):
        return seq[self.r.randrange(len(seq))]

    def wpick(self, pairs):
        total = sum(w for w, _ in pairs)
        x = self.r.random() * total
        for w, v in pairs:
            x -= w
            if x < 0:
                return v
        return pairs[-1][1]

    def many(self, lo, hi, fn, sep=", "):
        return sep.join(fn() for _ in range(self.r.randint(lo, hi)))

    # ---- lexical ---------------------------------------------------------------------------
    def name(self) -> str:
        if self.nonascii and self.p(0.25):
            self.features.add("nonascii-name")
            return self.pick(NONASCII_NAMES)
        return self.pick(ASCII_NAMES)

    def plain_name(self) -> str:
        n = self.name()
        return "v" if n in ("match", "case", "type", "_") else n

    def number(self) -> str:
        return self.pick(self.wpick([(5, INTS), (3, FLOATS), (1, IMAGS)]))

    def string_piece(self, bytes_ok=True, allow_u=True) -> str:
        kind = self.wpick([(6, "str"), (2, "raw"), (2 if bytes_ok else 0, "bytes"), (1 if allow_u else 0, "u"), (1 if bytes_ok else 0, "rawbytes")])
        prefix = {"str": "", "raw": self.pick(["r", "R"]), "bytes": self.pick(["b", "B"]), "u": self.pick(["u", "U"]), "rawbytes": self.pick(["rb", "bR", "Rb", "BR", "br", "rB"])}[kind]
        quote = self.wpick([(4, "'"), (4, '"'), (1, "'''"), (1, '"""')])
        body = []
        for _ in range(self.r.randint(0, 3)):
            c = self.wpick([(5, "plain"), (2, "esc"), (1, "other-quote"), (1 if self.nonascii and "b" not in prefix.lower() else 0, "nonascii"), (1 if len(quote) == 3 else 0, "newline")])
            if c == "plain":
                body.append(self.pick(STR_BODIES_PLAIN))
            elif c == "esc":
                e = self.pick(STR_ESCAPES)
                if "b" in prefix.lower() and e[:2] in ("\\u", "\\U", "\\N"):
                    e = "\\x41"
                if "r" in prefix.lower() and e in ("\\\n",):
                    e = "\\n"
                body.append(e)
                self.features.add("escape")
            elif c == "other-quote":
                body.append('"' if quote[0] == "'" else "'")
            elif c == "nonascii":
                body.append(self.pick(STR_NONASCII))
                self.features.add("nonascii-string")
            else:
                body.append("\n")
                self.features.add("multiline-string")
        text = "".join(body)
        if "r" in prefix.lower() and text.endswith("\\"):
            text += " "
        if text.endswith(quote[0]) and not text.endswith("\\" + quote[0]):
            text += " "
        return prefix + quote + text + quote

    def string(self) -> str:
        n = self.wpick([(8, 1), (2, 2), (1, 3), (1, 4)])
        if n == 1:
            return self.string_piece()
        self.features.add("implicit-concat")
        is_bytes = self.p(0.2)
        pieces = []
        for i in range(n):
            s = self.string_piece(bytes_ok=is_bytes, allow_u=(i == 0))
            if is_bytes and "b" not in s[: s.find(s.lstrip("rRbBuU")[0])].lower():
                s = "b" + s.lstrip("uU") if s[0] not in "rR" else "b" + s
            pieces.append(s)
        sep = self.wpick([(6, " "), (2, ""), (1, "  "), (1, " \\\n ")])
        return sep.join(pieces)

    def atom_literal(self) -> str:
        return self.wpick([(4, self.number), (4, self.string), (2, lambda: self.pick(["True", "False", "None", "..."]))])()

    # ---- expressions -----------------------------------------------------------------------
    def expr(self, d: int = 0) -> str:
        if d >= self.max_depth:
            return self.wpick([(5, self.name), (3, self.atom_literal)])()
        k = self.wpick(
            [
                (10, "name"),
                (8, "lit"),
                (8, "binop"),
                (3, "unop"),
                (3, "boolop"),
                (4, "compare"),
                (6, "call"),
                (4, "attr"),
                (4, "subscript"),
                (2, "ifexp"),
                (2, "lambda"),
                (3, "paren"),
                (3, "list"),
                (3, "tuple"),
                (2, "dict"),
                (2, "set"),
                (3, "comp"),
                (1, "walrus"),
                (1, "await"),
                (1, "yield"),
                (2, "prec"),
                (1 if self.fstrings and self.fstr_gen else 0, "fstring"),
            ]
        )
        e = lambda: self.expr(d + 1)  # noqa: E731
        if k == "name":
            return self.name()
        if k == "lit":
            return self.atom_literal()
        if k == "binop":
            op = self.pick(BINOPS)
            sp = self.pick(["", " ", " "])
            if op == "@":
                sp = " "  # never glue '@' to '(' (documented digraph)
            return f"{e()}{sp}{op}{sp}{e()}"
        if k == "unop":
            return f"{self.pick(UNOPS)}{e()}"
        if k == "boolop":
            op = self.pick(["and", "or"])
            return f" {op} ".join(e() for _ in range(self.r.randint(2, 3)))
        if k == "compare":
            out = e()
            for _ in range(self.r.randint(1, 3)):
                out += f" {self.pick(CMPOPS)} {e()}"
            return out
        if k == "call":
            return f"{self.primary(d + 1)}({self.call_args(d + 1)})"
        if k == "attr":
            return f"{self.primary(d + 1)}.{self.name()}"
        if k == "subscript":
            return f"{self.primary(d + 1)}[{self.slices(d + 1)}]"
        if k == "ifexp":
            return f"{e()} if {e()} else {e()}"
        if k == "lambda":
            return f"lambda {self.params(d + 1, annotations=False)}: {e()}"
        if k == "paren":
            return f"({e()})"
        if k == "list":
            return "[" + self.elements(d + 1) + "]"
        if k == "tuple":
            n = self.r.randint(0, 3)
            if n == 0:
                return "()"
            if n == 1:
                return f"({self.star_or_expr(d + 1)},)"
            return "(" + ", ".join(self.star_or_expr(d + 1) for _ in range(n)) + self.pick(["", ","]) + ")"
        if k == "dict":
            items = []
            for _ in range(self.r.randint(0, 3)):
                items.append((f"**{self.primary(d + 1)}" if self.p(0.7) else f"**{e()}") if self.p(0.2) else f"{e()}: {e()}")
            return "{" + ", ".join(items) + self.pick(["", ","] if items else [""]) + "}"
        if k == "set":
            return "{" + ", ".join(self.star_or_expr(d + 1) for _ in range(self.r.randint(1, 3))) + "}"
        if k == "comp":
            return self.comprehension(d + 1)
        if k == "walrus":
            return f"({self.plain_name()} := {e()})"
        if k == "await":
            return f"await {self.primary(d + 1)}"
        if k == "yield":
            return self.pick([f"(yield {e()})", "(yield)", f"(yield from {e()})"])
        if k == "fstring":
            return self.fstr_gen(self, d + 1)
        # precedence-sensitive shapes
        a, b, c = self.name(), self.name(), self.name()
        return self.pick(
            [
                f"-{a}**-{b}",
                f"{a} if {b} else {c} if {a} else {b}",
                f"not {a} in {b}",
                f"{a} < {b} == {c}",
                f"{a} ** {b} ** {c}",
                f"{a} - {b} - {c}",
                f"{a} / {b} * {c}",
                f"{a} or {b} and {c}",
                f"not {a} == {b}",
                f"{a} | {b} ^ {c} & {a}",
                f"{a} << {b} + {c}",
                f"-{a}.{b}",
                f"~{a}[{b}]",
                f"await {a}.{b}({c})",
                f"lambda: {a} if {b} else {c}",
                f"{a} is not not {b}",
                f"{a}, *{b}",
                f"({a} := {b}, {c})",
                f"{a} @ {b} @ {c}",
                f"{a} % {b} // {c}",
                f"-{a} ** {b}",
                f"{a}**-{b}",
                f"{a} if {b} else lambda: {c}",
                f"{a} not in {b} in {c}",
                f"{a} >> {b} << {c}",
            ]
        )

    def primary(self, d: int) -> str:
        k = self.wpick([(8, "name"), (2, "call"), (2, "attr"), (2, "sub"), (1, "paren"), (1, "lit")])
        if d >= self.max_depth or k == "name":
            return self.name()
        if k == "call":
            return f"{self.primary(d + 1)}({self.call_args(d + 1)})"
        if k == "attr":
            return f"{self.primary(d + 1)}.{self.name()}"
        if k == "sub":
            return f"{self.primary(d + 1)}[{self.slices(d + 1)}]"
        if k == "paren":
            return f"({self.expr(d + 1)})"
        return self.pick(["'s'", "[]", "{}", "()", "1.5", "(1)"])

    def star_or_expr(self, d: int) -> str:
        return f"*{self.primary(d)}" if self.p(0.15) else self.expr(d)

    def elements(self, d: int) -> str:
        n = self.r.randint(0, 4)
        s = ", ".join(self.star_or_expr(d) for _ in range(n))
        if n and self.p(0.2):
            s += ","
        return s

    def call_args(self, d: int) -> str:
        if self.p(0.08):
            return f"{self.expr(d)} for {self.target(d)} in {self.expr(d)}"
        args = []
        for _ in range(self.r.randint(0, 3)):
            args.append(self.wpick([(6, lambda: self.expr(d)), (1, lambda: f"*{self.primary(d)}"), (0.5, lambda: f"*{self.expr(d)}"), (0.5, lambda: f"{self.plain_name()} := {self.expr(d)}")])())
        for _ in range(self.r.randint(0, 2)):
            args.append(self.wpick([(4, lambda: f"{self.plain_name()}={self.expr(d)}"), (1, lambda: f"**{self.primary(d)}"), (1, lambda: f"*{self.primary(d)}"), (1, lambda: f"**{self.expr(d)}"), (0.5, lambda: f"*{self.expr(d)}")])())
        s = ", ".join(args)
        if args and self.p(0.15):
            s += ","
        return s

    def slice1(self, d: int) -> str:
        e = lambda: self.expr(d)  # noqa: E731
        return self.pick([e(), ":", f"{e()}:", f":{e()}", f"{e()}:{e()}", "::", f"{e()}::", f"::{e()}", f"{e()}:{e()}:{e()}", f":{e()}:", f"{e()}::{e()}", f":{e()}:{e()}"])

    def slices(self, d: int) -> str:
        n = self.wpick([(7, 1), (2, 2), (1, 3)])
        parts = [self.slice1(d) if not self.p(0.1) else f"*{self.primary(d)}" for _ in range(n)]
        s = ", ".join(parts)
        if self.p(0.1):
            s += ","
        return s

    def comprehension(self, d: int) -> str:
        clauses = ""
        for _ in range(self.wpick([(6, 1), (2, 2)])):
            clauses += f" {'async ' if self.p(0.1) else ''}for {self.target(d)} in {self.expr_noternary(d)}"
            for _ in range(self.wpick([(6, 0), (3, 1), (1, 2)])):
                clauses += f" if {self.expr_noternary(d)}"
        k = self.pick(["list", "set", "dict", "gen"])
        if k == "list":
            return f"[{self.expr(d)}{clauses}]"
        if k == "set":
            return f"{{{self.expr(d)}{clauses}}}"
        if k == "dict":
            return f"{{{self.expr(d)}: {self.expr(d)}{clauses}}}"
        return f"({self.expr(d)}{clauses})"

    def expr_noternary(self, d: int) -> str:
        return self.wpick([(5, self.name), (3, lambda: self.primary(d)), (2, lambda: f"({self.expr(d)})"), (1, lambda: f"{self.name()} {self.pick(BINOPS[:6])} {self.name()}")])()

    # ---- targets ---------------------------------------------------------------------------
    def target(self, d: int) -> str:
        k = self.wpick([(10, "name"), (2, "attr"), (2, "sub"), (2, "tuple"), (1, "list"), (1, "ptuple"), (1, "star"), (0.5, "empty")])
        if d >= self.max_depth or k == "name":
            return self.plain_name()
        if k == "attr":
            return f"{self.primary(d + 1)}.{self.name()}"
        if k == "sub":
            return f"{self.primary(d + 1)}[{self.slices(d + 1)}]"
        if k == "tuple":
            return ", ".join(self.target(d + 1) for _ in range(self.r.randint(2, 3)))
        if k == "list":
            return "[" + ", ".join(self.target(d + 1) for _ in range(self.r.randint(0, 3))) + "]"
        if k == "ptuple":
            n = self.r.randint(0, 3)
            inner = ", ".join(self.target(d + 1) for _ in range(n))
            return f"({inner}{',' if n == 1 else ''})"
        if k == "star":
            return f"*{self.plain_name()}, {self.target(d + 1)}"
        return self.pick(["()", "[]"])

    # ---- parameters ------------------------------------------------------------------------
    def params(self, d: int, annotations: bool = True) -> str:
        used = set()

        def nm():
            for _ in range(20):
                n = self.plain_name() if not self.p(0.1) else self.name()
                if n not in used:
                    used.add(n)
                    return n
            n = f"p{len(used)}"
            used.add(n)
            return n

        def one(default_ok, force_default=False, star_ann=False):
            s = nm()
            if annotations and self.p(0.3):
                s += f": {'*' + self.name() if star_ann and self.p(0.5) else self.expr(d + 1)}"
                eq = " = "
            else:
                eq = "="
            has_default = force_default or (default_ok and self.p(0.4))
            if has_default:
                s += f"{eq}{self.expr(d + 1)}"
            return s, has_default

        parts = []
        seen_default = False
        npos = self.wpick([(6, 0), (2, 1), (1, 2)])
        for _ in range(npos):
            s, hd = one(True, seen_default)
            seen_default |= hd
            parts.append(s)
        if npos:
            parts.append("/")
        for _ in range(self.wpick([(3, 0), (4, 1), (3, 2), (1, 3)])):
            s, hd = one(True, seen_default)
            seen_default |= hd
            parts.append(s)
        star = self.wpick([(6, "none"), (2, "args"), (2, "bare")])
        if star == "args":
            s, _ = one(False, star_ann=True)
            parts.append("*" + s)
        if star == "bare" or (star == "args" and self.p(0.5)):
            kw = [one(True)[0] for _ in range(self.r.randint(1, 2))]
            if star == "bare":
                parts.append("*")
            parts.extend(kw)
        if self.p(0.2):
            parts.append("**" + one(False)[0])
        s = ", ".join(parts)
        if parts and parts[-1] != "/" and self.p(0.1):
            s += ","
        if parts and parts[-1] == "/" and self.p(0.3):
            s += ","
        return s

    def type_params(self, d: int) -> str:
        items = []
        for i in range(self.r.randint(1, 3)):
            n = f"T{i}"
            items.append(self.pick([n, f"{n}: {self.expr(d + 1)}", f"*{n}", f"**{n}", f"{n}: (int, str)"]))
        return "[" + ", ".join(items) + "]"

    # ---- patterns --------------------------------------------------------------------------
    def pattern(self, d: int) -> str:
        k = self.wpick([(5, "lit"), (5, "capture"), (3, "wild"), (3, "value"), (2, "group"), (4, "seq"), (3, "map"), (3, "class"), (2, "or"), (2, "as")])
        if d >= self.max_depth:
            k = self.pick(["lit", "capture", "wild"])
        if k == "lit":
            return self.pick(["1", "-1", "1.5", "-1.5", "'s'", "b'x'", "None", "True", "False", "1+2j", "-1-2j", "1.5+0j", "'a' 'b'", "0x10", "1_0"])
        if k == "capture":
            return self.pick(["x", "y", "match", "case", "type", "val"])
        if k == "wild":
            return "_"
        if k == "value":
            return self.pick(["a.b", "a.b.c", "Color.RED", "_.x"])
        if k == "group":
            return f"({self.pattern(d + 1)})"
        if k == "seq":
            n = self.r.randint(0, 3)
            items = [self.pattern(d + 1) for _ in range(n)]
            if items and self.p(0.3):
                items[self.r.randrange(len(items))] = self.pick(["*rest", "*_"])
            style = self.pick(["[]", "()", "bare"])
            if style == "[]":
                return "[" + ", ".join(items) + "]"
            if style == "()":
                return "(" + ", ".join(items) + ("," if len(items) == 1 else "") + ")"
            if not items:
                return "[]"
            return ", ".join(items) + ("," if len(items) == 1 else "")
        if k == "map":
            items = [f"{self.pick(['1', repr('k'), 'a.b', 'None', '-1'])}: {self.pattern(d + 1)}" for _ in range(self.r.randint(0, 2))]
            if self.p(0.3):
                items.append("**rest")
            return "{" + ", ".join(items) + "}"
        if k == "class":
            pos = [self.pattern(d + 1) for _ in range(self.r.randint(0, 2))]
            kws = [f"k{i}={self.pattern(d + 1)}" for i in range(self.r.randint(0, 2))]
            return f"{self.pick(['C', 'a.B', 'int'])}(" + ", ".join(pos + kws) + ")"
        if k == "or":
            return " | ".join(self.pattern_closed(d + 1) for _ in range(self.r.randint(2, 3)))
        return f"{self.pattern_closed(d + 1)} as {self.pick(['n', 'm'])}"

    def pattern_closed(self, d: int) -> str:
        p = self.pattern(d)
        if " as " in p or "|" in p or ("," in p and p[0] not in "([{") and "(" not in p:
            return f"({p})"
        return p

    # ---- statements ------------------------------------------------------------------------
    def simple_stmt(self, d: int) -> str:
        k = self.wpick(
            [
                (8, "expr"),
                (8, "assign"),
                (3, "augassign"),
                (3, "annassign"),
                (2, "del"),
                (3, "return"),
                (2, "raise"),
                (2, "assert"),
                (2, "pass"),
                (1, "break"),
                (1, "continue"),
                (1, "global"),
                (4, "import"),
                (1, "type"),
                (1, "starassign"),
            ]
        )
        e = lambda: self.expr(d + 1)  # noqa: E731
        if k == "expr":
            return e()
        if k == "assign":
            targets = " = ".join(self.target(d + 1) for _ in range(self.wpick([(8, 1), (2, 2), (1, 3)])))
            rhs = self.wpick([(8, e), (1, lambda: f"{e()}, {e()}"), (1, lambda: f"*{self.primary(d + 1)}, {e()}"), (1, lambda: f"yield {e()}")])()
            return f"{targets} = {rhs}"
        if k == "augassign":
            t = self.wpick([(5, self.plain_name), (2, lambda: f"{self.primary(d + 1)}.{self.name()}"), (2, lambda: f"{self.primary(d + 1)}[{self.slices(d + 1)}]")])()
            return f"{t} {self.pick(AUGOPS)} {e()}"
        if k == "annassign":
            t = self.wpick([(5, self.plain_name), (2, lambda: f"{self.primary(d + 1)}.{self.name()}"), (1, lambda: f"{self.primary(d + 1)}[{self.expr(d + 1)}]"), (1, lambda: f"({self.plain_name()})")])()
            return f"{t}: {e()}" + (f" = {e()}" if self.p(0.6) else "")
        if k == "del":
            return "del " + self.wpick([(4, lambda: ", ".join(self.del_target(d + 1) for _ in range(self.r.randint(1, 3)))), (1, lambda: f"({self.del_target(d + 1)}, {self.del_target(d + 1)})"), (1, lambda: self.pick(["()", "[]", "(a,)", "[a, b]", "(a), b"]))])()
        if k == "return":
            return self.pick(["return", f"return {e()}", f"return {e()}, {e()}", f"return *{self.name()}, {e()}"])
        if k == "raise":
            return self.pick(["raise", f"raise {e()}", f"raise {e()} from {e()}"])
        if k == "assert":
            return self.pick([f"assert {e()}", f"assert {e()}, {e()}"])
        if k in ("pass", "break", "continue"):
            return k
        if k == "global":
            return f"{self.pick(['global', 'nonlocal'])} " + ", ".join(self.plain_name() for _ in range(self.r.randint(1, 3)))
        if k == "import":
            return self.import_stmt()
        if k == "type":
            return f"type {self.plain_name()}{self.type_params(d) if self.p(0.4) else ''} = {e()}"
        return f"*{self.plain_name()}, {self.plain_name()} = {e()}"

    def del_target(self, d: int) -> str:
        return self.wpick([(5, self.plain_name), (2, lambda: f"{self.primary(d)}.{self.name()}"), (2, lambda: f"{self.primary(d)}[{self.slices(d)}]")])()

    def dotted(self) -> str:
        return ".".join(self.plain_name() for _ in range(self.wpick([(5, 1), (3, 2), (1, 3)])))

    def import_stmt(self) -> str:
        def alias(n):
            return n + (f" as {self.plain_name()}" if self.p(0.3) else "")

        if self.p(0.4):
            return "import " + ", ".join(alias(self.dotted()) for _ in range(self.wpick([(6, 1), (2, 2), (1, 3)])))
        level = self.wpick([(5, ""), (2, "."), (1, ".."), (1, "..."), (1, "...."), (0.5, "....."), (0.5, ". ."), (0.5, "... .")])
        mod = self.dotted() if (not level or self.p(0.6)) else ""
        sp = " " if (mod or not level) else self.pick(["", " "])
        names = self.wpick(
            [
                (6, lambda: ", ".join(alias(self.plain_name()) for _ in range(self.r.randint(1, 3)))),
                (2, lambda: "(" + ", ".join(alias(self.plain_name()) for _ in range(self.r.randint(1, 3))) + self.pick(["", ","]) + ")"),
                (1, lambda: "*"),
            ]
        )()
        return f"from {level}{mod}{sp}import {names}" if (level or mod) else f"from {self.dotted()} import {names}"

    def block(self, d: int, ind: str) -> str:
        if self.p(0.15) and d < self.max_depth:
            # one-line suite
            return " " + "; ".join(self.simple_stmt(d + 1) for _ in range(self.wpick([(6, 1), (2, 2)]))) + "\n"
        ind2 = ind + self.pick(["    ", "  ", "    ", "\t"] if ind == "" or ind[-1] != "\t" else ["\t"])
        if "\t" in ind2 and " " in ind2:
            ind2 = ind + "    "
        out = "\n"
        for _ in range(self.wpick([(6, 1), (3, 2), (1, 3)])):
            out += self.stmt(d + 1, ind2)
        return out

    def stmt(self, d: int, ind: str = "") -> str:
        """one statement with its trailing newline, indented by ind"""
        if d >= self.max_depth or self.p(0.6):
            n = self.wpick([(8, 1), (1, 2), (0.5, 3)])
            s = "; ".join(self.simple_stmt(d) for _ in range(n))
            if n > 1 and self.p(0.2):
                s += ";"
            return ind + s + "\n"
        k = self.wpick([(5, "if"), (3, "while"), (4, "for"), (3, "with"), (4, "try"), (6, "def"), (3, "class"), (3, "match")])
        e = lambda: self.expr(d + 1)  # noqa: E731
        blk = lambda: self.block(d, ind)  # noqa: E731
        if k == "if":
            s = f"{ind}if {self.named_or_expr(d)}:{blk()}"
            for _ in range(self.wpick([(6, 0), (2, 1), (1, 2)])):
                s += f"{ind}elif {e()}:{blk()}"
            if self.p(0.4):
                s += f"{ind}else:{blk()}"
            return s
        if k == "while":
            s = f"{ind}while {self.named_or_expr(d)}:{blk()}"
            if self.p(0.2):
                s += f"{ind}else:{blk()}"
            return s
        if k == "for":
            it = self.wpick([(6, e), (1, lambda: f"{e()}, {e()}"), (1, lambda: f"*{self.primary(d + 1)}, {e()}")])()
            s = f"{ind}{'async ' if self.p(0.15) else ''}for {self.target(d + 1)} in {it}:{blk()}"
            if self.p(0.2):
                s += f"{ind}else:{blk()}"
            return s
        if k == "with":
            items = [f"{e()}" + (f" as {self.target_single(d + 1)}" if self.p(0.6) else "") for _ in range(self.wpick([(6, 1), (3, 2), (1, 3)]))]
            body = ", ".join(items)
            if self.p(0.25):
                body = f"({body}{self.pick(['', ','])})"
            return f"{ind}{'async ' if self.p(0.15) else ''}with {body}:{blk()}"
        if k == "try":
            s = f"{ind}try:{blk()}"
            star = "*" if self.p(0.2) else ""
            nh = self.wpick([(2, 0), (5, 1), (2, 2)])
            for i in range(nh):
                if star or self.p(0.8) or i < nh - 1:
                    exc = self.wpick([(5, self.dotted), (2, lambda: f"({self.dotted()}, {self.dotted()})")])()
                    s += f"{ind}except{star} {exc}" + (f" as {self.plain_name()}" if self.p(0.4) else "") + f":{blk()}"
                else:
                    s += f"{ind}except:{blk()}"
            if nh and self.p(0.2):
                s += f"{ind}else:{blk()}"
            if nh == 0 or self.p(0.3):
                s += f"{ind}finally:{blk()}"
            return s
        if k == "def":
            s = ""
            for _ in range(self.wpick([(7, 0), (2, 1), (1, 2)])):
                s += f"{ind}@{self.decorator(d + 1)}\n"
            tp = self.type_params(d) if self.p(0.15) else ""
            ret = f" -> {e()}" if self.p(0.3) else ""
            return s + f"{ind}{'async ' if self.p(0.2) else ''}def {self.plain_name()}{tp}({self.params(d + 1)}){ret}:{blk()}"
        if k == "class":
            s = ""
            for _ in range(self.wpick([(8, 0), (2, 1)])):
                s += f"{ind}@{self.decorator(d + 1)}\n"
            tp = self.type_params(d) if self.p(0.15) else ""
            bases = ""
            if self.p(0.6):
                args = [self.expr(d + 1) for _ in range(self.r.randint(0, 2))] + [f"{self.plain_name()}={self.expr(d + 1)}" for _ in range(self.wpick([(6, 0), (2, 1)]))]
                if self.p(0.1):
                    args.append(f"*{self.name()}")
                if self.p(0.1):
                    args.append(f"**{self.name()}" if self.p(0.5) else f"**{self.expr(d + 1)}")
                bases = "(" + ", ".join(args) + ")"
            return s + f"{ind}class {self.plain_name()}{tp}{bases}:{blk()}"
        # match
        ind2 = ind + "    "
        subject = self.wpick([(6, e), (1, lambda: f"{e()}, {e()}"), (1, lambda: f"*{self.name()}, {e()}")])()
        s = f"{ind}match {subject}:\n"
        for _ in range(self.wpick([(5, 1), (4, 2), (2, 3)])):
            guard = f" if {self.named_or_expr(d)}" if self.p(0.25) else ""
            s += f"{ind2}case {self.pattern(d + 1)}{guard}:{self.block(d + 1, ind2)}"
        return s

    def named_or_expr(self, d: int) -> str:
        return f"{self.plain_name()} := {self.expr(d + 1)}" if self.p(0.1) else self.expr(d + 1)

    def target_single(self, d: int) -> str:
        return self.wpick([(6, self.plain_name), (1, lambda: f"{self.primary(d)}.{self.name()}"), (1, lambda: f"{self.primary(d)}[{self.expr(d)}]"), (1, lambda: f"({self.plain_name()}, {self.plain_name()})"), (1, lambda: f"[{self.plain_name()}, *{self.plain_name()}]")])()

    def decorator(self, d: int) -> str:
        s = self.wpick([(5, self.dotted), (3, lambda: f"{self.dotted()}({self.call_args(d)})"), (1, lambda: f"{self.name()}[{self.expr(d)}].{self.name()}"), (1, lambda: f"{self.name()} if {self.name()} else {self.name()}"), (1, lambda: f"lambda f: f")])()
        return s

    def program(self, max_stmts: int = 5) -> str:
        out = ""
        for _ in range(self.r.randint(1, max_stmts)):
            out += self.stmt(0, "")
        return out


def has_xonsh_digraph(src: str) -> bool:
    """'@' directly followed by '(' -- the documented digraph, outside C01/C02/C09's domain"""
    return "@(" in src


RESERVED = frozenset(keyword.kwlist)
