"""G9: arbitrary text -- weighted alphabets spliced with dictionary fragments."""

from __future__ import annotations

from hypothesis import strategies as st

FRAGMENTS = [
    "$(", "$[", "![", "!(", "@(", "@$(", "${", "$X", ")", "]", "}", "f'{", "f\"{", "f'''", "rf'", "{{", "}}", "!r", ":>{", "=}",
    "with! a:", "with!", "f!(", "!", "?", "??", "'''", '"""', "'", '"', "\\\n", "\\", "\n", "\n    ", "\n\t", "\r\n", "\r", " ", "  ",
    "#c", "`", "g`*`", "@a`b`", "p'", "pf'", "pr\"", "&&", "||", ">&", "|", "&", ";", ":", ",", ".", "...", "=", "==", ":=", "->", "**", "@",
    "if ", "else", "def f(", "class ", "lambda ", "for x in ", "match x:\n case ", "import ", "from . import ", "try:\n", "except*", "type X = ",
    "x", "a.b", "1", "0x", "1e", "1_", "0_7", "1.5j", "b'é'", "'\\N{x}'", "u'", "await ", "yield ", "not ", "in ", "is ", "echo", "ls -la", "2>&1", "del ", "return ",
    "\x0c", "\t", "\x00", "\ufeff", "€", "é", "\u2028", "\x1b", "󠄀", "\ud800", "'\udfff'", "b'\udc80'", "\\\ud800", "f'\\\udfff{x}'", "\\N{\ud800}",
]

ALPHA = st.one_of(
    st.sampled_from(list("()[]{}$?!@`'\"\\#:;,.=+-*/<>&|^~% \n\t")),
    st.characters(min_codepoint=32, max_codepoint=126),
    st.characters(min_codepoint=0, max_codepoint=31),
    st.characters(blacklist_categories=["Cs"]),
    st.sampled_from(["\r", "\x0c", "\x00", "\ufeff", "\u2028", "\u2029", "\U0001F600", "\u0301", "\x85", "\ud800", "\udfff"]),
)

soup = st.lists(st.one_of(st.sampled_from(FRAGMENTS), st.sampled_from(FRAGMENTS), st.text(ALPHA, min_size=1, max_size=4)), min_size=1, max_size=14).map("".join)
