"""G7: f-string literals from a feature grammar; every literal carries the set of features used."""

from __future__ import annotations

PREFIXES = ["f", "f", "f", "F", "rf", "fr", "Rf", "fR", "RF", "FR", "rF", "Fr"]
QUOTES = ["'", '"', "'''", '"""']
PLAIN = ["a", "abc", " ", "x y", "hello, world", "%s", "1.5", "#", "$X", "a?", "`", "p", "(", "]", ":", "!", "=", "!r", ";", "@", "->"]
ESCAPES = ["\\n", "\\t", "\\\\", "\\'", '\\"', "\\x41", "\\101", "\\u00e9", "\\N{DIGIT ONE}", "\\N{LATIN SMALL LETTER A}", "\\a", "\\0"]
NONASCII = ["é", "日本", "😀"]
EXPRS = ["a", "b", "a.b", "a[0]", "f(a)", "f(a, b=1)", "a + b", "a if b else c", "-a", "not a", "a, b", "*a, b", "(a)", "[a, b]", " {1: 2}[1] ", " {a} ", "(lambda: 1)()", "(x := 1)", "a!=b", "a == b",
         "a[1:2]", "a < b", "(yield)", "await a", "1.5", "0x1F", "None", "...", "a @ b", "a ** -b", "f(*a, **k)", "a.b.c(d)[e]", "lambda_", "(a, (b, c))", "{**a}", "[x for x in y]", "{k: v for k, v in z}"]
SPEC_TEXT = ["=^10", "=", "=+8.2f", ">10", "<5", "^8", "0.2f", ".3", "x", "#x", ",", "_", "%Y-%m-%d", "%H:%M", "10", "08.3f", "s", "+", " ", "\"^10", "b:c", "é>4", "\\N{DIGIT ONE}>4", "\\t", "\\x41^9", "'", "\\'", "\\\\"]


class FGen:
    def __init__(self, rnd, nonascii=False, allow_known_broken=True):
        self.r = rnd
        self.nonascii = nonascii
        self.feats: set[str] = set()
        self.raw = False  # inside a raw f-string (innermost literal being generated)

    def p(self, x):
        return self.r.random() < x

    def pick(self, seq):
        return seq[self.r.randrange(len(seq))]

    def string_atom(self, quote):
        """a plain string usable inside a field of an f-string delimited by `quote`"""
        same = self.p(0.3)
        q = quote[0] if same else ("'" if quote[0] == '"' else '"')
        if same:
            self.feats.add("same-quote-string-in-field")
        else:
            self.feats.add("other-quote-string-in-field")
        return f"{q}{self.pick(['k', 'x y', '', ', ', '{', '}'])}{q}"

    def expr(self, quote, d):
        k = self.r.random()
        if k < 0.55:
            return self.pick(EXPRS)
        if k < 0.7:
            s = self.string_atom(quote)
            return self.pick([s, f"a[{s}]", f"{s}.join(a)", f"f({s})", f"{s} + b"])
        if k < 0.8 and d < 2:
            self.feats.add("nested-fstring")
            inner = self.literal(d + 1, outer=quote)
            return inner
        if k < 0.88 and len(quote) == 3:
            self.feats.add("multi-line-field")
            return self.pick(["\na\n", "a +\n b", "f(a,\n  b)", "a # comment\n", "\n [1,\n 2]\n"])
        if k < 0.93:
            self.feats.add("backslash-in-field")
            if self.p(0.4):
                # a backslash-newline inside the field (allowed in single-quoted f-strings too): continues the field only
                self.feats.add("continuation-in-field")
                return self.pick(["a\\\n+ b", "a + \\\nb", "a \\\n", "\\\na", "f(a, \\\n b)"])
            return self.pick(['"\\n".join(a)' if quote[0] == "'" else "'\\n'.join(a)", "a\\\n+ b" if len(quote) == 3 else "a"])
        return f"{self.pick(EXPRS)} {self.pick(['+', 'or', 'if x else', '-'])} {self.pick(EXPRS)}"

    def spec(self, quote, d):
        parts = []
        for _ in range(self.r.randint(0, 3)):
            if self.p(0.35) and d < 2:
                self.feats.add("nested-spec-field")
                inner = "{" + self.pick(["w", "p", "w + 1", "a.b", "f(w)"] + ([self.literal(d + 1, outer=quote)] if d < 1 and self.p(0.25) else [])) + (self.pick(["", "!r", ":>{z}", ":{z}{y:{k}}", ":{z:>{k}}"]) if self.p(0.3) else "") + "}"
                parts.append(inner)
            else:
                t = self.pick(SPEC_TEXT)
                if len(quote) == 1 and __import__("re").search(r"(?<!\\)" + quote[0], t):
                    t = ">4"
                if "\\" in t:
                    if self.raw:
                        t = "^7"  # CPython 3.12.1 decodes the escapes of a spec even in a raw f-string: not something to imitate
                    else:
                        self.feats.add("escape-in-spec")
                if not t.isascii():
                    if not self.nonascii:
                        t = "^6"
                    else:
                        self.feats.add("non-ascii")
                parts.append(t)
        if parts:
            self.feats.add("spec")
        else:
            self.feats.add("empty-spec")
        return "".join(parts)

    def field(self, quote, d):
        self.feats.add("field")
        e = self.expr(quote, d)
        s = "{" + self.pick(["", "", " "]) + e
        if self.p(0.15) and "!" not in e and "=" not in e:
            # (CPython 3.12.1 cuts the debug text of '{a!=b=}' at the '!': not something to imitate)
            self.feats.add("debug=")
            s += self.pick(["=", " = ", "= ", " ="])
            if len(quote) == 3 and self.p(0.25):
                # the debug text runs up to the next token of the field: line ends after '=' belong to it
                self.feats.add("newline-after-debug=")
                s += self.pick(["\n", " \n  ", "\n\n"])
        if self.p(0.25):
            self.feats.add("conversion")
            s += self.pick(["!r", "!s", "!a", "!r ", " !s", "!a\t"] if self.p(0.3) else ["!r", "!s", "!a"])
        if self.p(0.3):
            s += ":" + self.spec(quote, d + 1)
        return s + "}"

    def text(self, prefix, quote):
        raw = "r" in prefix.lower()
        k = self.r.random()
        if k < 0.5:
            t = self.pick(PLAIN)
        elif k < 0.65:
            self.feats.add("escape" if not raw else "raw-backslash")
            t = self.pick(ESCAPES)
            if raw:
                # in a raw literal a backslash is text: '\N{a}' is '\N' + a field, '\{a}' is '\' + a field
                # (a backslash still keeps the quote character after it inside the literal: rf'\'{y}' is one literal)
                t = self.pick(["\\d", "\\N{a}", "\\N{a!r}", "\\{a}", "\\x41", "\\n{b}", "\\\\", "\\N", "\\" + quote[0], "[\\" + quote[0] + "]{y}+", "\\" + quote[0] + "{y}\\" + quote[0]])
                if quote[0] in t:
                    self.feats.add("raw-backslash-quote")
                if "{" in t:
                    self.feats.add("field")
        elif k < 0.8:
            self.feats.add("doubled-brace")
            t = self.pick(["{{", "}}", "{{}}", "{{a}}", "}}{{", "{{{{"])
        elif k < 0.87:
            self.feats.add("other-quote-in-text")
            t = '"' if quote[0] == "'" else "'"
        elif k < 0.93 and self.nonascii:
            self.feats.add("non-ascii")
            t = self.pick(NONASCII)
        elif len(quote) == 3:
            self.feats.add("newline-in-text")
            t = self.pick(["\n", "x\ny", "\n\n"])
        else:
            t = self.pick(PLAIN)
        if len(quote) == 1 and __import__("re").search(r"(?<!\\)" + quote[0], t):  # an unescaped quote would end the literal
            t = "q"
        return t

    def literal(self, d=0, outer=None):
        prefix = self.pick(PREFIXES)
        quote = self.pick(QUOTES if d == 0 else QUOTES[:2] + QUOTES)
        if outer is not None:
            if quote == outer or (len(outer) == 1 and quote[0] == outer[0]):
                self.feats.add("nested-same-quote")
        if len(quote) == 3:
            self.feats.add("triple-quote")
        if prefix.lower() != "f":
            self.feats.add("raw-prefix" if "r" in prefix.lower() else "prefix-F")
        parts = []
        outer_raw, self.raw = self.raw, "r" in prefix.lower()
        for _ in range(self.r.randint(0, 4)):
            parts.append(self.field(quote, d) if self.p(0.55) else self.text(prefix, quote))
        self.raw = outer_raw
        body = "".join(parts)
        if body.endswith(quote[0]) and not body.endswith("\\" + quote[0]):
            body += " "
        if "r" in prefix.lower() and body.endswith("\\"):
            body += " "
        return f"{prefix}{quote}{body}{quote}"

    def plain_string(self):
        return self.pick(["'s'", '"t"', "'{'", "'}'", "'''m'''", "r'\\d'", "u'u'", "'a' \"b\"", "''", '""', "'' ''", "''''''"])

    def statement(self):
        """one or more literals in a statement; adjacency features are recorded"""
        F = self.literal()
        k = self.r.random()
        if k < 0.4:
            return f"x = {F}\n"
        if k < 0.5:
            self.feats.add("concat-plain-after")
            return f"x = {F} {self.plain_string()}\n"
        if k < 0.6:
            self.feats.add("concat-plain-before")
            return f"x = {self.plain_string()} {F}\n"
        if k < 0.68:
            self.feats.add("concat-fstring")
            return f"x = {F} {self.literal()}\n"
        if k < 0.76:
            self.feats.add("two-fstrings-on-line")
            return f"print({F}, {self.literal()})\n"
        if k < 0.82:
            self.feats.add("brace-after-on-line")
            return self.pick([f"x = {F}; y = {{}}\n", f"x = {F}  # {{c}}\n", f"x = {F}, {{1: 2}}\n", f"x = {F}, '{{'\n", f"d = {{'k': {F}}}\n"])
        if k < 0.88:
            self.feats.add("fstrings-on-separate-lines")
            return f"x = [{F},\n     {self.literal()}]\ny = {self.literal()}\n"
        if k < 0.94:
            self.feats.add("concat-across-lines")
            return f"x = ({F}\n     {self.pick([self.plain_string(), self.literal()])})\n"
        return f"def g(a={F}): return {self.literal()}\n"


# ---- f-string text soup: literal pieces made of the characters the scanners treat specially ------------------------------
SOUP_PIECES = ["\\t", "\\n", "\\\\", "\\x41", "\\N{DIGIT ONE}", "\\", '"', "'", "'''", '"""', " + ", "x", " ", ", ", "{a}", "{b!r}", "{c:>4}", "{d:\\t>5}", "{e:{w}}", "{{", "}}", "{f=}", "#", "\\'", '\\"', "\\{", "é", "{g:'^3}", '{h:"^3}', ":", "!"]


QUOTE_HEAVY = ["\\t", '"', "'" * 3, "'", '"' * 3, " + ", "x", ", ", " ", "\\n", "{a}", "\\"]


def text_soup(rnd):
    """an f-string whose text is a random run of backslashes, quotes of every kind, braces and fields, in every delimiter and
    prefix; most are valid for at least one delimiter -- whether one is, is for the oracle (CPython) to say"""
    pre = rnd.choice(["f", "f", "rf", "F", "fR", "Rf"])
    q = rnd.choice(["'", '"', "'''", '"""', '"""', "'''"])
    if len(q) == 3 and rnd.random() < 0.3:
        # quote sandwich: inside a triple-quoted literal, the other triple quote twice with an operator, a comma or nothing
        # between the two, single quotes of both kinds and an escape around them -- text that reads like several literals
        o3 = "'''" if q == '"""' else '"""'
        parts = [rnd.choice(["\\t", "\\n", "\\x41", "", "\\\\"]), rnd.choice(['"', "'", ""]), " ", o3, rnd.choice([" + x + ", ", ", " x ", "", " + ", "{a}"]), o3, " ", rnd.choice(['"', "'", ""]), rnd.choice(["", " ", "\\t"])]
        if rnd.random() < 0.3:
            rnd.shuffle(parts)
        body = "".join(parts)
        if body.endswith(q[0]):
            body += " "
    elif rnd.random() < 0.4:
        # quote-heavy: several quotes of the other kinds around an escape, operators and names between them (whatever decodes
        # the text must not take a quote inside it for the end of anything)
        body = "".join(rnd.choice(QUOTE_HEAVY) for _ in range(rnd.randrange(4, 10)))
    else:
        body = "".join(rnd.choice(SOUP_PIECES) for _ in range(rnd.randrange(1, 7)))
    if len(q) == 3 and rnd.random() < 0.3:
        i = rnd.randrange(len(body) + 1)
        body = body[:i] + "\n" + body[i:]
    lead = rnd.choice(["x = ", "", "f(", "y = 'p' "])
    return lead + pre + q + body + q + (")" if lead == "f(" else "") + "\n"
