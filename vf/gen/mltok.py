"""G10: statements built around tokens that span several physical lines.

Triple-quoted strings / f-strings of 2..6 lines placed after other tokens on their first line, inside constructs
the parser rejects with a *known range* (the error text then has to quote the interior lines), and f-string debug
fields ('{expr=}') whose '=' / conversion / spec / closing brace sit on different physical lines (the debug text is
looked up in the source again, from the line cache or from the file).
"""

from __future__ import annotations

WORDS = ["", "", "a", "bc d", "", "  e", "x = 1", "# no", "\tt", "z)", "(", "'q'", '"', "é", "日本", "\\", "{{", "}}"]
FWORDS = ["{x}", "{x!r}", "{x:>4}", "{x=}", "{ y = }", "{f(1,\n 2)}", "{x:{w}}"]

# {S} = the multi-line token
ERR_TEMPLATES = [
    "x = {S} = 1", "{S} = 1", "[a, {S} b]", "f(a, {S} c)", "{S} += 1", "del {S}", "for {S} in y: pass", "with a as {S}: pass", "({S}) = 3", "({S}, 2) = 4", "f({S} = 1)", "lambda: {S} = 1",
    "f(a, \\\n\\\n b, {S}) = 1", "x = [1, \\\n   \\\n 2 {S}]", "x = {S} if a else b = 1", "import {S}", "x = [{S}, 1", "x = ({S}", "x = {S} {S} = 2", "def f({S}): pass", "x = {S}.1", "{S} := 2", "(b, {S}) += 1", "x = {S} y", "print {S}", "a = b = {S} = c",
]
OK_TEMPLATES = ["x = {S}", "f({S}, 2)", "x = [1, {S},\n  3]", "x = {{'k': {S}}}", "return_ = {S} + {S}", "x = {S}.join(a)", "assert {S}, {S}", "x = {S} if a else {S}", "v = f'''{{{S}=}}'''", "v = f'''{{ {S} = !r:>9}}'''", "v = f\"\"\"a{{{S}=}}b\"\"\"", "w = f'{{ {S} = }}'"]
LATER_ERRORS = ["foo(a, b for b in\n    c, d)", "x = (1,\n  2", "y = [1,\n 2)", "f(a=1,\n  b)", "z = 1 +", "if a\n  pass", "  q = 1", "k = 'abc", "m = (a,\n  b c)", "del f(),\n  g", "class A\n  pass", "for x in (1,\n 2) pass"]
DEBUG_FIELDS = [
    "{a + \\\n\\\n b =}", "{x \\\n  \\\n=!r}", "{x=}", "{x = }", "{x=!r}", "{x=!r\n}", "{x=:>10\n}", "{x=!r:\n}", "{\nx=}", "{x\n=}", "{x=\n}", "{x =\n !r}", "{x = !r:>{w}\n}", "{f(a,\n b)=}", "{a +\n b = !s}", "{x=:{w}\n.{p}}", "{ x\n =\n }", "{'k'=}", "{x=:\n\n}", "{x = :a\nb}", "{x=}{y=\n}", "{é=}", "{é = !r\n}",
]


def pick(rnd, seq):
    return seq[rnd.randrange(len(seq))]


def ml_string(rnd, lines=None):
    """a triple-quoted (f-)string literal spanning `lines` physical lines (default 2..6)"""
    k = lines or rnd.randrange(2, 7)
    q = pick(rnd, ['"""', "'''"])
    pre = pick(rnd, ["", "", "r", "b", "f", "f", "rb", "u", "F", "rf"])
    isf = "f" in pre.lower()
    body = []
    for _ in range(k):
        w = pick(rnd, FWORDS if isf and rnd.random() < 0.4 else WORDS)
        if "b" in pre.lower() and not w.isascii():
            w = "b"
        if w.endswith("\\") and "r" not in pre.lower():
            w = w + "\\"
        if isf and not w.startswith("{") and ("{" in w or "}" in w) and w not in ("{{", "}}"):
            w = "t"
        if q[0] in w:
            w = "u"
        body.append(w)
    # k lines of text -> k-1 newlines inside the token; a k-line token needs k parts
    s = "\n".join(body)
    if s.endswith("\\") and "r" in pre.lower():
        s += " "
    return f"{pre}{q}{s}{q}"


def ml_statement(rnd):
    """-> (statement source, features); the statement contains at least one token of >= 2 physical lines"""
    feats = []
    n = rnd.randrange(2, 7)
    S = ml_string(rnd, n)
    feats.append(f"ml-token-lines:{min(n, 4)}{'+' if n > 4 else ''}")
    if rnd.random() < 0.6:
        t = pick(rnd, ERR_TEMPLATES)
        feats.append("ml-token-in-error")
    else:
        t = pick(rnd, OK_TEMPLATES)
        if "=}" in t or "= }" in t or "= !" in t:
            feats.append("ml-token-in-debug-field")
    src = t.replace("{S}", S)
    if t in OK_TEMPLATES:
        src = src.replace("{{", "{").replace("}}", "}") if t.startswith(("v =", "w =", "x = {{")) else src
    return src, feats


def debug_statement(rnd):
    """an f-string statement with debug fields laid out over several lines"""
    q = pick(rnd, ['"""', "'''", '"""', "'"])
    fields = [pick(rnd, DEBUG_FIELDS) for _ in range(rnd.randrange(1, 4))]
    if len(q) == 1:
        fields = [f.replace("'", '"') for f in fields]
    txt = [pick(rnd, ["", "a", " b\n", "\n", "c: "]) if len(q) == 3 else pick(rnd, ["", "a", "c: "]) for _ in range(len(fields) + 1)]
    body = "".join(t + f for t, f in zip(txt, fields)) + txt[-1]
    pre = pick(rnd, ["f", "f", "F", "rf"])
    lead = pick(rnd, ["v = ", "print(", "v = 1, ", "return_ = [\n  ", "v = 's' "])
    tail = {"print(": ")", "return_ = [\n  ": "]"}.get(lead, "")
    return f"{lead}{pre}{q}{body}{q}{tail}", ["debug-field-layout"]


def program(rnd):
    """a few statements mixing multi-line tokens, multi-line debug fields, ordinary lines and (optionally last) a
    statement whose diagnosis spans lines -> (source, features)"""
    parts, feats = [], []
    for _ in range(rnd.randrange(1, 4)):
        k = rnd.random()
        if k < 0.4:
            s, f = ml_statement(rnd)
        elif k < 0.8:
            s, f = debug_statement(rnd)
        else:
            s, f = pick(rnd, ["k = 1", "# comment", "", "if a:\n    b = 2", "def g():\n    return 1"]), []
        parts.append(s)
        feats += f
    if rnd.random() < 0.5:
        parts.append(pick(rnd, LATER_ERRORS))
        feats.append("later-multi-line-error")
    if rnd.random() < 0.3:
        # put everything in a block: tokens then follow an INDENT on their first line
        body = "\n".join(parts)
        if "\n" not in body or rnd.random() < 0.5:
            src = "if c:\n    " + body.replace("\n", "\n    ")
        else:
            src = "def h():\n  " + parts[0] + "".join("\n  " + p for p in parts[1:])
        feats.append("in-block")
    else:
        src = "\n".join(parts)
    return src + ("\n" if rnd.random() < 0.7 else ""), feats
