"""G3: real programs as seeds -- the repo's test data and the running interpreter's standard library."""

from __future__ import annotations

import ast
import glob
import os
import sysconfig
import textwrap
import warnings

from ..common import REPO

warnings.simplefilter("ignore")

MAX_FILE = 300_000


def test_data_files() -> list[str]:
    return sorted(glob.glob(os.path.join(REPO, "tests", "data", "*.py")))


def xonsh_data_files() -> list[str]:
    out = sorted(glob.glob(os.path.join(REPO, "tests", "data", "*.xsh")))
    out += sorted(glob.glob(os.path.join(REPO, "tests", "data", "exprs", "*.py")))
    out += sorted(glob.glob(os.path.join(REPO, "tests", "data", "stmts", "*.py")))
    return out


_stdlib = None


def stdlib_files() -> list[str]:
    global _stdlib
    if _stdlib is None:
        root = sysconfig.get_paths().get("stdlib") or ""
        files = []
        if os.path.isdir(root):
            for dp, dns, fns in os.walk(root):
                dns[:] = sorted(d for d in dns if d not in ("site-packages", "__pycache__", "lib2to3", "idlelib", "turtledemo"))
                for fn in sorted(fns):
                    if fn.endswith(".py"):
                        p = os.path.join(dp, fn)
                        try:
                            if os.path.getsize(p) <= MAX_FILE:
                                files.append(p)
                        except OSError:
                            pass
        _stdlib = files
    return _stdlib


def read_text(path: str) -> str | None:
    try:
        with open(path, "rb") as f:
            data = f.read()
        text = data.decode("utf-8")
    except (OSError, UnicodeDecodeError):
        return None
    if text.startswith("﻿") or "\x00" in text:
        return None
    # only the utf-8 default: files with another coding cookie would mean something else to CPython
    head = text[:200]
    if "coding" in head and "utf" not in head.lower():
        return None
    return text.replace("\r\n", "\n")


def statements(text: str, nested: bool = True) -> list[str]:
    """source text (whole lines, dedented) of the statements of a module; CPython decides the cut"""
    try:
        tree = ast.parse(text)
    except (SyntaxError, ValueError, RecursionError):
        return []
    lines = text.split("\n")
    out = []
    seen = set()

    def seg(node):
        start = min([node.lineno] + [d.lineno for d in getattr(node, "decorator_list", [])])
        end = node.end_lineno
        return start, end

    def visit(body, depth):
        for node in body:
            s, e = seg(node)
            if (s, e) in seen:
                continue
            seen.add((s, e))
            chunk = "\n".join(lines[s - 1 : e]) + "\n"
            if depth:
                chunk = textwrap.dedent(chunk)
            out.append(chunk)
            if nested and isinstance(node, (ast.ClassDef, ast.FunctionDef, ast.AsyncFunctionDef)) and (e - s) > 12 and depth < 2:
                visit(node.body, depth + 1)

    visit(tree.body, 0)
    # statements sharing a physical line with another one cannot be cut out as whole lines
    return out


def sample_statements(rng, n_files: int, per_file: int = 40, include_tests: bool = True):
    files = stdlib_files()
    chosen = []
    if include_tests:
        chosen += test_data_files()
    if files:
        chosen += rng.sample(files, min(n_files, len(files)))
    for p in chosen:
        text = read_text(p)
        if text is None:
            continue
        sts = statements(text)
        if len(sts) > per_file:
            sts = rng.sample(sts, per_file)
        for s in sts:
            yield p, s
