"""G4: near-valid inputs -- token- and line-level edits, and prefixes, of seed programs."""

from __future__ import annotations

import keyword
import re

LEX = re.compile(r"[ \t\f]+|\r?\n|\w+|'''|\"\"\"|\*\*=|//=|>>=|<<=|\.\.\.|!=|==|<=|>=|->|:=|\+=|-=|\*=|/=|%=|&=|\|=|\^=|@=|\*\*|//|<<|>>|[^\w\s]")

PY_VOCAB = (
    list(keyword.kwlist)
    + ["match", "case", "type", "_"]
    + "( ) [ ] { } , : ; . ... = == != < > <= >= + - * / // % @ ** << >> & | ^ ~ := -> += -= *= **= lambda".split()
    + ["x", "y", "1", "1.5", "'s'", '"t"', "b'b'", "\n", "\n    ", "    ", " ", "#c\n", "\\\n", "'", '"', "'''", "f'", "f'{", "}"]
)
XONSH_VOCAB = ["$", "$X", "${", "$(", "$[", "!(", "![", "@(", "@$(", "?", "??", "!", "`", "`a`", "&&", "||", ">&", "p'a'", "pf'", "with!", "!(a", "g`", "@x`"]
NASTY = ["€", "\\", "\r", "\x00", "\x0c", "\t", "\ufeff", "é", "\u2028", "󠄀", "·", "\x1b", "\xa0", "\x0b", "\u3000", "\xa0\n", " \x0b \n", ")", "]", "}\n"]


def lex(text: str) -> list[str]:
    return LEX.findall(text)


def mutate_tokens(rnd, text: str, vocab, n_edits: int = 1) -> tuple[str, str]:
    toks = lex(text)
    ops = []
    for _ in range(n_edits):
        if not toks:
            break
        op = rnd.choice(["delete", "duplicate", "swap", "replace", "insert", "insert"])
        i = rnd.randrange(len(toks))
        # prefer significant tokens
        for _ in range(3):
            if toks[i].strip():
                break
            i = rnd.randrange(len(toks))
        if op == "delete":
            del toks[i]
        elif op == "duplicate":
            toks.insert(i, toks[i])
        elif op == "swap" and i + 1 < len(toks):
            toks[i], toks[i + 1] = toks[i + 1], toks[i]
        elif op == "replace":
            toks[i] = rnd.choice(vocab)
        else:
            toks.insert(i, rnd.choice(vocab) + rnd.choice(["", " "]))
        ops.append(op)
    return "".join(toks), "+".join(ops)


def mutate_lines(rnd, text: str) -> tuple[str, str]:
    lines = text.split("\n")
    if not lines:
        return text, "none"
    op = rnd.choice(["delete", "duplicate", "indent", "dedent", "join", "blank", "swap"])
    i = rnd.randrange(len(lines))
    if op == "delete":
        del lines[i]
    elif op == "duplicate":
        lines.insert(i, lines[i])
    elif op == "indent":
        lines[i] = rnd.choice([" ", "  ", "    ", "\t"]) + lines[i]
    elif op == "dedent":
        lines[i] = lines[i][min(len(lines[i]) - len(lines[i].lstrip()), rnd.choice([1, 2, 4])) :]
    elif op == "join" and i + 1 < len(lines):
        lines[i : i + 2] = [lines[i] + " " + lines[i + 1].lstrip()]
    elif op == "blank":
        lines.insert(i, rnd.choice(["", "   ", "# c", "\t"]))
    elif op == "swap" and i + 1 < len(lines):
        lines[i], lines[i + 1] = lines[i + 1], lines[i]
    return "\n".join(lines), "line-" + op


def token_prefixes(text: str):
    toks = lex(text)
    acc = ""
    for t in toks[:-1]:
        acc += t
        if t.strip():
            yield acc


def char_prefix(rnd, text: str) -> str:
    if len(text) < 2:
        return text
    return text[: rnd.randrange(1, len(text))]


def mutate(rnd, text: str, vocab=None, xonsh: bool = False, nasty: bool = False) -> tuple[str, str]:
    vocab = vocab or (PY_VOCAB + (XONSH_VOCAB if xonsh else []) + (NASTY if nasty else []))
    k = rnd.random()
    if k < 0.55:
        return mutate_tokens(rnd, text, vocab, 1)
    if k < 0.65:
        return mutate_tokens(rnd, text, vocab, rnd.randint(2, 3))
    if k < 0.8:
        return mutate_lines(rnd, text)
    if k < 0.9:
        pre = list(token_prefixes(text))
        if pre:
            return rnd.choice(pre), "token-prefix"
    return char_prefix(rnd, text), "char-prefix"
