"""G5: xonsh sources -- suite pairs (input, documented translation), hand-written seeds, and models."""

from __future__ import annotations

import glob
import os

from ..common import REPO


def _get_cases(text: str, splitter="# "):
    inp, parts = [], []
    for line in text.splitlines():
        if line.startswith(splitter):
            inp.append(line.lstrip(splitter))
        elif not line.strip():
            if parts:
                yield "\n".join(inp), "\n".join(parts)
                inp, parts = [], []
        else:
            parts.append(line)
    if parts:
        yield "\n".join(inp), "\n".join(parts)


_pairs = None


def suite_pairs():
    """(mode, xonsh input, documented Python translation) from tests/data/exprs and stmts"""
    global _pairs
    if _pairs is None:
        out = []
        for sub, mode in (("exprs", "eval"), ("stmts", "exec")):
            for p in sorted(glob.glob(os.path.join(REPO, "tests", "data", sub, "*.py"))):
                with open(p, encoding="utf-8") as f:
                    for inp, exp in _get_cases(f.read()):
                        if inp:
                            out.append((mode, inp, exp))
        _pairs = out
    return _pairs


HAND_SEEDS = [
    "$HOME\n",
    "x = $HOME + ${'a' + b}\n",
    "$X = 1\n",
    "${a} = 2\n",
    "for $X in y:\n    pass\n",
    "with a as $X:\n    pass\n",
    "$(ls -la)\n",
    "$[ls $HOME]\n",
    "!(echo @(x) y)\n",
    "![echo @$(which ls) 'a b' 2>&1]\n",
    "x = $(ls $(pwd) | grep a)\n",
    "echo = $(echo --opt=val a.b/c 1e5x ..)\n",
    "f!(x, y + 1, [a, b])\n",
    "f!(if x: y)\n",
    "a.b!( 'a,b', (1, 2) )\n",
    "$(bash -c! echo 'hi'; ls)\n",
    "![echo! a b   c]\n",
    "with! ctx as c:\n    a b c\n    if x:\n        y\nz = 1\n",
    "with! ctx: echo hi\nz = 1\n",
    "p'/a/b'\n",
    "x = pf'/a/{b}' / pr'\\c'\n",
    "y = `.*\\.py`\n",
    "z = g`*.py` + r`a` + @foo`bar`\n",
    "x?\n",
    "x.y??\n",
    "a = b?.c?\n",
    "a && b || c\n",
    "r = a if $X && $Y else $(c)\n",
    "def f():\n    return $(git status)\n",
    "x = [$A, ${'B'}, $(c), !(d), `e`, p'f']\n",
    "print(f'{$HOME}/x')\n",
    "ls -la\n",
    "echo hi > out.txt\n",
    "cd $HOME && ls\n",
    "x = @(y)\n",
    "$[echo @(a)@(b)]\n",
    "lambda: $X\n",
    "{$A: $(b)}\n",
    "a[$X:${y}]\n",
    "$(echo a;b)\n",
    "![ls | wc -l]\n",
    "!(a) and ![b] or $[c]\n",
]


def xonsh_seeds() -> list[str]:
    out = list(HAND_SEEDS)
    for mode, inp, _ in suite_pairs():
        out.append(inp + "\n")
    for p in sorted(glob.glob(os.path.join(REPO, "tests", "data", "*.xsh"))):
        with open(p, encoding="utf-8") as f:
            out.append(f.read())
    return out
