"""G5: xonsh sources -- suite pairs (input, documented translation), hand-written seeds, and models."""

from __future__ import annotations

import glob
import os

from ..common import REPO


def _get_cases(text: str, splitter="# "):
    inp, parts = [], []
    for line in text.splitlines():
        if line.startswith(splitter):
            inp.append(line.lstrip(splitter))
        elif not line.strip():
            if parts:
                yield "\n".join(inp), "\n".join(parts)
                inp, parts = [], []
        else:
            parts.append(line)
    if parts:
        yield "\n".join(inp), "\n".join(parts)


_pairs = None


def suite_pairs():
    """(mode, xonsh input, documented Python translation) from tests/data/exprs and stmts"""
    global _pairs
    if _pairs is None:
        out = []
        for sub, mode in (("exprs", "eval"), ("stmts", "exec")):
            for p in sorted(glob.glob(os.path.join(REPO, "tests", "data", sub, "*.py"))):
                with open(p, encoding="utf-8") as f:
                    for inp, exp in _get_cases(f.read()):
                        if inp:
                            out.append((mode, inp, exp))
        _pairs = out
    return _pairs


HAND_SEEDS = [
    "$HOME\n",
    "x = $HOME + ${'a' + b}\n",
    "$X = 1\n",
    "${a} = 2\n",
    "for $X in y:\n    pass\n",
    "with a as $X:\n    pass\n",
    "$(ls -la)\n",
    "$[ls $HOME]\n",
    "!(echo @(x) y)\n",
    "![echo @$(which ls) 'a b' 2>&1]\n",
    "x = $(ls $(pwd) | grep a)\n",
    "echo = $(echo --opt=val a.b/c 1e5x ..)\n",
    "f!(x, y + 1, [a, b])\n",
    "f!(if x: y)\n",
    "a.b!( 'a,b', (1, 2) )\n",
    "$(bash -c! echo 'hi'; ls)\n",
    "![echo! a b   c]\n",
    "with! ctx as c:\n    a b c\n    if x:\n        y\nz = 1\n",
    "with! ctx: echo hi\nz = 1\n",
    "p'/a/b'\n",
    "x = pf'/a/{b}' / pr'\\c'\n",
    "y = `.*\\.py`\n",
    "z = g`*.py` + r`a` + @foo`bar`\n",
    "x?\n",
    "x.y??\n",
    "a = b?.c?\n",
    "a && b || c\n",
    "r = a if $X && $Y else $(c)\n",
    "def f():\n    return $(git status)\n",
    "x = [$A, ${'B'}, $(c), !(d), `e`, p'f']\n",
    "print(f'{$HOME}/x')\n",
    "ls -la\n",
    "echo hi > out.txt\n",
    "cd $HOME && ls\n",
    "x = @(y)\n",
    "$[echo @(a)@(b)]\n",
    "lambda: $X\n",
    "{$A: $(b)}\n",
    "a[$X:${y}]\n",
    "$(echo a;b)\n",
    "![ls | wc -l]\n",
    "!(a) and ![b] or $[c]\n",
]


def xonsh_seeds() -> list[str]:
    out = list(HAND_SEEDS)
    for mode, inp, _ in suite_pairs():
        out.append(inp + "\n")
    for p in sorted(glob.glob(os.path.join(REPO, "tests", "data", "*.xsh"))):
        with open(p, encoding="utf-8") as f:
            out.append(f.read())
    return out


# =================================================================================================
# G5a: sugar constructs paired with their documented translation (computed here, never by the parser)

ENV_NAMES = ["X", "HOME", "PATH", "x", "_a", "A1", "path"]
PY_NAMES = ["a", "b", "x", "y", "foo", "obj"]
SIMPLE_WORDS = ["ls", "-l", "-la", "a/b", "--opt=val", "echo", "file.txt", "..", "a-b", "x=1", "~/d", "1", "2.5", "a.b.c", "git", "status"]
QUOTED = ['"a b"', "'c'", '"x,y"', "'(z'", 'r"\\d"', '"]"']
SUBPROC_FORMS = [("$(", ")", "subproc_captured"), ("$[", "]", "subproc_uncaptured"), ("!(", ")", "subproc_captured_object"), ("![", "]", "subproc_captured_hiddenobject")]


class Sugar:
    """text, documented translation, level ('atom' fits anywhere an atom fits, 'bool' needs a full
    expression slot), and the class of the node that must span the construct"""

    __slots__ = ("text", "trans", "level", "cls", "kind")

    def __init__(self, text, trans, level, cls, kind):
        self.text, self.trans, self.level, self.cls, self.kind = text, trans, level, cls, kind


def sugar(rnd, d: int = 0, allow_bool: bool = True, multiline: bool = False) -> Sugar:
    """multiline: subprocess words may be separated by a line end; '\n=col' stands for a line end followed by as many
    blanks as the column the previous word ended in (expand with expand_columns once the start column is known)"""
    kinds = ["env", "env", "envexpr", "subproc", "subproc", "search", "pstr", "help", "pfstr", "pconcat"]
    if allow_bool and d == 0:
        kinds += ["and", "or"]
    k = rnd.choice(kinds)
    if k == "env":
        n = rnd.choice(ENV_NAMES)
        return Sugar(f"${n}", f"__xonsh__.env[{n!r}]", "atom", "Subscript", "$NAME")
    if k == "envexpr":
        if d < 2 and rnd.random() < 0.4:
            inner = sugar(rnd, d + 1, allow_bool=False)
            it, tt = inner.text, inner.trans
        else:
            it = tt = rnd.choice(["x", "'a' + b", "f(1)", "None or 'W'", "a.b", "n[0]", "'HOME'", '"EDITOR"', "'A' 'B'", "f'{a}_DIR'", "1", "b'x'", "r'\\d'", "(k)", "'P' if c else q", "u'U'", "y := 'HOME'", "(a, b)", "(*a, b)", "lambda: k", "a if b else c"])
        sp = rnd.choice(["", "", " "])
        return Sugar("${" + sp + it + sp + "}", f"__xonsh__.env[str({tt})]", "atom", "Subscript", "${expr}")
    if k == "subproc":
        o, c, fn = rnd.choice(SUBPROC_FORMS)
        words, trans = [], []
        for _ in range(rnd.randint(1, 4)):
            r = rnd.random()
            if r < 0.6:
                w = rnd.choice(SIMPLE_WORDS)
                words.append(w)
                trans.append(repr(w))
            elif r < 0.75:
                w = rnd.choice(QUOTED)
                words.append(w)
                trans.append(repr(w))
            elif r < 0.9 or d >= 2:
                n = rnd.choice(ENV_NAMES)
                words.append(f"${n}")
                trans.append(f"__xonsh__.env[{n!r}]")
            else:
                inner = sugar_subproc(rnd, d + 1)
                words.append(inner.text)
                trans.append(inner.trans)
        sep = rnd.choice([" ", " ", "  "])
        if multiline and d == 0 and len(words) > 1 and rnd.random() < 0.2:
            sep = rnd.choice(["\n", "\n  ", "\n=col", "\n=col", " \n"])
        pad = rnd.choice(["", "", " "])
        return Sugar(o + pad + sep.join(words) + pad + c, f"__xonsh__.{fn}({', '.join(trans)})", "atom", "Call", o + ".." + c)
    if k == "search":
        pre = rnd.choice(["", "", "r", "g", "p", "f", "rp", "gf", "@foo", "@"])
        body = rnd.choice([".*", "*.py", "a b", "x\\\\d+", "[a-z]", "a/b", "", "a\\`b", "\\`.*\\`", "[\\`x]+\\.txt", "\\w+\\`\\d"])
        t = f"{pre}`{body}`"
        return Sugar(t, f"__xonsh__.pathsearch({t!r})", "atom", "Call", "backtick")
    if k == "pstr":
        pre = rnd.choice(["p", "P", "pr", "rp", "Pr", "rP", "PR", "pR"])
        q = rnd.choice(["'", '"', "'''", '"""'])
        body = rnd.choice(["/a/b", "~", "", "c d", "x.y", "\\\\d" if "r" in pre.lower() else "/t"])
        rest = pre.replace("p", "").replace("P", "")
        return Sugar(f"{pre}{q}{body}{q}", f"__xonsh__.path_literal({rest}{q}{body}{q})", "atom", "Call", "p-string")
    if k == "pconcat":
        # a path literal made of adjacent pieces (implicit concatenation): one p-prefixed piece, the others plain or f-strings
        forms = [
            ("p'/a' '/b'", "'/a' '/b'"), ('p"~" "/x" \'y\'', '"~" "/x" \'y\''), ("pr'\\d' 'e'", "r'\\d' 'e'"), ("p'a' f'{x}'", "'a' f'{x}'"), ("pf'{r}/etc/' f'{n}.toml'", "f'{r}/etc/' f'{n}.toml'"),
            ("f'{x}/' pf'{y}'", "f'{x}/' f'{y}'"), ("'a' pf'{x}' 'c'", "'a' f'{x}' 'c'"), ("pf'{a}' 'b'", "f'{a}' 'b'"), ("pf'{a}' f'{b}' f'{c!r}'", "f'{a}' f'{b}' f'{c!r}'"), ("p'''m''' 'n'", "'''m''' 'n'"),
            ("fp'{a}' \"q\" f\"{b}\"", "f'{a}' \"q\" f\"{b}\""), ("pf'{a}/' f'{b}/' 'c' f'{d}'", "f'{a}/' f'{b}/' 'c' f'{d}'"),
            ("pf'/a' f\"{'x'}\"", "f'/a' f\"{'x'}\""), ("pf'{r}' f\"{d['k']}{\"s\" 't'}\"", "f'{r}' f\"{d['k']}{\"s\" 't'}\""), ("p'/a' f\"{'x' + y}\" 'z'", "'/a' f\"{'x' + y}\" 'z'"),
        ]
        t, tr = rnd.choice(forms)
        return Sugar(t, f"__xonsh__.path_literal({tr})", "atom", "Call", "p-concat")
    if k == "pfstr":
        pre = rnd.choice(["pf", "fp", "Pf", "pF", "FP"])
        q = rnd.choice(["'", '"'])
        body = rnd.choice(["/a/{b}", "{x}", "{a}/c{d}", "~/{n!r}"])
        return Sugar(f"{pre}{q}{body}{q}", f"__xonsh__.path_literal(f{q}{body}{q})", "atom", "Call", "pf-string")
    if k == "help":
        n = rnd.choice(PY_NAMES)
        form = rnd.choice(["?", "??", "?.?", "?.??"])
        if form == "?":
            return Sugar(f"{n}?", f"__xonsh__.help({n})", "atom", "Call", "help")
        if form == "??":
            return Sugar(f"{n}??", f"__xonsh__.superhelp({n})", "atom", "Call", "superhelp")
        m = rnd.choice(PY_NAMES)
        outer = "help" if form == "?.?" else "superhelp"
        return Sugar(f"{n}?.{m}{'?' if outer == 'help' else '??'}", f"__xonsh__.{outer}(__xonsh__.help({n}).{m})", "atom", "Call", "help-chain")
    # && and ||
    op_x, op_p = ("&&", "and") if k == "and" else ("||", "or")

    def operand():
        if rnd.random() < 0.5:
            n = rnd.choice(PY_NAMES)
            return n, n
        s = sugar(rnd, d + 1, allow_bool=False)
        return s.text, s.trans

    n = rnd.randint(2, 3)
    ops = [operand() for _ in range(n)]
    sp = rnd.choice([" ", " ", "  "])
    # (both spellings of the operator may occur in one chain: it is still one flat BoolOp)
    seps = [op_x if i == 0 or rnd.random() < 0.7 else op_p for i in range(n - 1)]
    text = ops[0][0] + "".join(f"{sp}{s_}{sp}" + o[0] for s_, o in zip(seps, ops[1:]))
    return Sugar(text, f" {op_p} ".join(o[1] for o in ops), "bool", "BoolOp", op_x)


def expand_columns(text: str, start_col: int) -> str:
    """replace every '\n=col' marker by a line end plus blanks up to the column where the text before it ended"""
    out = ""
    for i, part in enumerate(text.split("\n=col")):
        if i:
            col = len(out) - (out.rfind("\n") + 1) + (start_col if "\n" not in out else 0)
            out += "\n" + " " * col
        out += part
    return out


def sugar_subproc(rnd, d):
    for _ in range(20):
        s = sugar(rnd, d, allow_bool=False)
        if s.kind.endswith(")") or s.kind.endswith("]"):
            return s
    return Sugar("$(ls)", "__xonsh__.subproc_captured('ls')", "atom", "Call", "$(..)")


STORE_TEMPLATES = [
    "{T} = 1\n", "{T} = y = 2\n", "{T}, x = 1, 2\n", "[{T}, *y] = z\n", "(x, {T}) = z\n", "for {T} in y:\n    pass\n", "for x, {T} in y:\n    pass\n",
    "with a as {T}:\n    pass\n", "with a as b, c as {T}:\n    pass\n", "r = [x for {T} in y]\n", "r = {{k: v for k, {T} in y}}\n", "async def f():\n    async for {T} in y:\n        pass\n",
    "*{T}, x = z\n", "x = {T} = 3\n", "with (a as {T}):\n    pass\n",
]


# =================================================================================================
# G5b: word model for subprocess command lines (C06)

import keyword as _keyword
import re as _re

WORD_ALPHABET = "abcxyzQ019_-./=:,+%^~*<>|&;@é"
CURATED_WORDS = ["--opt=val", "1e5x", "a.b/c", "2>&1", "..", ">>=", "**", "...", "1.2.3", "0x", "-la", "a=b", "~/x", "*.py", "a,b", "x:y", "1_000", "1__0", "a->b", ":=", "&&", "||", "|", ">", ">>", "<", "&", ";", "a;b",
                 "@", "a@b", "+x", "%d", "^a", "0b2", "1.", ".5", "1j", "1e", "e1", "a.b.c", "//", "a//b", "==", "!=".replace("!", "="), "<=", "-", "--", "=", "ñ", "é.txt", "x1y2", "__a__", "match", "case", "type", "_", "ﬁle", "µ", "ｆｏｏ.txt", "1º", "ªb", "ﬀ-x", "ǅ", "a|b", "2>", "1>&2", ">&", "a&b", "@@", "@a", "a@", "ªs", "ºr", "nºt", "ｉｆ", "ｉｎ", "𝐢𝐬", "x/ªs.txt", "ｄｅｆ", "ｆｏｒ"]
QUOTED_PIECES = ['"""first\nsecond"""', "'''x\n  y\nz'''", '"a\\\nb"', '"a b"', "'c'", '"x,y"', "'(z'", 'r"\\d"', '"]"', "b'q'", "u'u'", "''", '"$X"', "'#'", '"""t q"""', "R'''a'''", "'a\\'b'", '"`"', "'?'", "'!'"]
_IDENT = _re.compile(r"[^\W\d]\w*")
_KW = set(_keyword.kwlist)


def word_ok(text: str) -> bool:
    if "@(" in text or "@$" in text:
        return False
    return not any(m.group(0) in _KW for m in _IDENT.finditer(text))


def plain_piece(rnd) -> str:
    if rnd.random() < 0.5:
        return rnd.choice(CURATED_WORDS)
    return "".join(rnd.choice(WORD_ALPHABET) for _ in range(rnd.randint(1, 6)))


class Cmd:
    """a generated command line: text plus the expected argument structure"""

    def __init__(self, form, words, text):
        self.form, self.words, self.text = form, words, text  # words: list of list of pieces


def gen_word(rnd, d):
    """list of pieces; piece = (kind, text, payload)"""
    pieces = []
    n = rnd.choice([1, 1, 1, 2, 2, 3])
    for _ in range(n):
        r = rnd.random()
        prev = pieces[-1] if pieces else None
        if r < 0.55:
            t = plain_piece(rnd)
            if prev and prev[0] == "env" and _re.match(r"\w", t):
                t = "/" + t
            if prev and prev[0] == "plain":
                continue
            pieces.append(("plain", t, None))
        elif r < 0.7:
            q = rnd.choice(QUOTED_PIECES)
            if prev and prev[0] == "plain" and prev[1][-1:].lower() in "rbufp":
                pieces[-1] = ("plain", prev[1] + "-", None)
            if prev and prev[0] == "env" and q[0] not in "'\"":
                continue  # '$x' + b'q' would read as $xb
            if prev and prev[0] == "quoted" and prev[1][-2:] in ("''", '""') and len(prev[1].lstrip("rRbBuU")) == 2:
                continue  # '' + 'x' would open a triple quote
            pieces.append(("quoted", q, None))
        elif r < 0.8:
            name = rnd.choice(ENV_NAMES)
            if prev and prev[0] == "plain" and prev[1].endswith("@"):
                continue
            pieces.append(("env", f"${name}", name))
        elif r < 0.88:
            e = rnd.choice(["x", "a + b", "f(1)", "[1, 2]", "'s'", "x for x in y", "a, b", "lambda: 1", "d['k']", 'f"{x}"', "f'{a}-{b!r:>4}'", "{'k': v}['k']", "{1, 2}", "f'{x:{w}}' + y", "[f'{i}' for i in z]", "(a, [b, {c}])", "g(h(1)[2])", '3 * "ab" + "c"', 'fmt % "a" + "b"', '"a" + "b"', '"x" "y"', "'p' + q + 'r' + 's'", '"a" * 2 + "b" * 3'])
            pieces.append(("pyexpr", f"@({e})", e))
        elif prev and prev[0] == "plain" and prev[1].endswith("@"):
            continue  # '@' directly followed by '(' or '$' is outside the property's alphabet
        elif r < 0.93 and d < 2:
            inner = gen_cmd(rnd, d + 1, forms=[("@$(", ")", "subproc_captured_inject")])
            pieces.append(("inject", inner.text, inner))
        elif d < 2:
            inner = gen_cmd(rnd, d + 1)
            pieces.append(("nested", inner.text, inner))
        elif not prev or prev[0] not in ("plain", "env"):
            pieces.append(("plain", plain_piece(rnd), None))
    if not pieces:
        pieces.append(("plain", "ls", None))
    return pieces


def gen_cmd(rnd, d=0, forms=None, newline_ws=False) -> Cmd:
    o, c, fn = rnd.choice(forms or SUBPROC_FORMS)
    words = []
    for _ in range(rnd.randint(1, 5)):
        for _try in range(10):
            w = gen_word(rnd, d)
            plain_text = "".join(p[1] for p in w if p[0] == "plain")
            # the reserved-word test looks at the text as the tokenizer will see it (pieces glued)
            glued = "".join(p[1] if p[0] in ("plain",) else " " for p in w)
            if word_ok(glued) and word_ok("".join(p[1] for p in w if p[0] in ("plain", "quoted"))) and plain_text != "":
                break
            if word_ok(glued) and all(p[0] != "plain" for p in w):
                break
        else:
            w = [("plain", "ls", None)]
        words.append(w)
    # (a form feed between words is whitespace like any other, for CPython's tokenizer and for this one)
    seps = [" ", " ", "  ", "\t", "   ", " \t ", "\x0c", " \x0c", "\x0c\t "] + (["\n", " \n  ", "\n=col", "\n=col"] if newline_ws else [])
    text = o + rnd.choice(["", "", " ", "  "])
    for i, w in enumerate(words):
        if i:
            sep = rnd.choice(seps)
            if sep == "\n=col":
                # the next word starts on a new line, in exactly the column where the previous one ended
                sep = "\n" + " " * (len(text) - (text.rfind("\n") + 1))
            text += sep
        text += "".join(p[1] for p in w)
    text += rnd.choice(["", "", " ", "\t"]) + c
    return Cmd((o, c, fn), words, text)


# =================================================================================================
# G5c: macro models (C07)

MACRO_ATOMS = ["x", "y1", "import", "if", "else", "lambda", "not", "in", "None", "1", "2.5", "0x1F", "+", "-", "*", "**", "=", "==", "!=", "<", ">=", "->", ":", ";", ".", "...", "@", "|", "&", "%", "~", "^",
               "$X", "${x}", "$(ls -l)", "![echo hi]", "@(z)", "a?", "`*.py`", "&&", "||", "echo", "--flag", "a/b", "é", "export", "PATH", "'s'", '"t u"', "'a,b'", '"(x"', "')]'", 'r"\\d,"', "'''m'''", '"it\'s"', "b'q'", 'f"v ({x})"', "f'{k}['", 'f"a,{b!r:>3}"', "f'{d[1]},'"]
MACRO_OPEN = [("(", ")"), ("[", "]"), ("{", "}")]


def macro_arg(rnd, d=0, in_bracket=False) -> str:
    """token soup with balanced brackets and complete strings; no top-level comma unless in_bracket"""
    parts = []
    for _ in range(rnd.randint(1, 4)):
        r = rnd.random()
        if r < 0.7 or d >= 2:
            parts.append(rnd.choice(MACRO_ATOMS))
        else:
            o, c = rnd.choice(MACRO_OPEN)
            inner = [macro_arg(rnd, d + 1, True) for _ in range(rnd.randint(0, 3))]
            sep = rnd.choice([", ", ",", " , ", ",\n  ", ",  # c\n ", ", \\\n  ", ",  # see (\n ", ", # ] ,\n"])
            parts.append(o + sep.join(inner) + rnd.choice(["", "", ",", " "]) + c)
        if in_bracket and rnd.random() < 0.2:
            parts.append(",")
    out = ""
    for p in parts:
        sp = rnd.choice([" ", " ", "", "  ", "\t", " \\\n "])  # incl. a backslash continuation
        if out and sp == "" and (out[-1].isalnum() or out[-1] in "_'\"") and (p[0].isalnum() or p[0] in "_'\""):
            sp = " "
        # never glue characters into a different token that opens a bracket or a string
        if out and sp == "" and (out[-1] in "$!@`?&|<>=*-+./:%^~" or p[0] in "$!@`?&|<>=*-+./:%^~"):
            sp = " "
        out += sp + p if out else p
    return out


def split_top_level(text: str) -> list[str]:
    """independent scanner: cut at top-level commas (strings with prefixes/triple quotes/escapes, brackets, comments)"""
    out, cur, depth, i, n = [], "", 0, 0, len(text)
    while i < n:
        ch = text[i]
        if ch in "'\"":
            q = text[i : i + 3] if text[i : i + 3] in ("'''", '"""') else ch
            j = i + len(q)
            while j < n and not text.startswith(q, j):
                j += 2 if text[j] == "\\" else 1
            j = min(n, j + len(q))
            cur += text[i:j]
            i = j
            continue
        if ch == "#" and depth > 0:
            j = text.find("\n", i)
            j = n if j < 0 else j
            cur += text[i:j]
            i = j
            continue
        if ch in "([{":
            depth += 1
        elif ch in ")]}":
            depth -= 1
        if ch == "," and depth == 0:
            out.append(cur)
            cur = ""
        else:
            cur += ch
        i += 1
    out.append(cur)
    return out


CALLEES = ["f", "obj.m", "g(1)", "tbl[0]", "a.b.c", "f(x)(y)", "match", "case", "type", "_", "match.x", "print"]
MACRO_CONTEXTS = ["{M}\n", "x = {M}\n", "x = {M} + 1\n", "r = g({M}, 2)\n", "v = [{M}][0]\n", "w = {M}.attr\n", "{M}; y = 2\n", "if {M}:\n    z = 3\n", "q = ({M},\n     4)\n", "for i in {M}: pass\n", "x = {M}\ny = [1,\n 2]\nz = 5\n", 'x = f"{{M}}"\n', "y = f'{{M}:>10}'\n", "z = f'''a {{M}!r} b'''\n", 'w = f"{a}{{M}}{b}" + c\n', 'v = f"{k:{{M}}}"\n']


def call_macro_case(rnd):
    callee = rnd.choice(CALLEES)
    n = rnd.randint(1, 4)
    args = []
    for i in range(n):
        a = macro_arg(rnd)
        lead = rnd.choice(["", "", " ", "  "]) if i else rnd.choice(["", "", " "])
        trail = rnd.choice(["", "", " "])
        r = rnd.random()
        if r < 0.06:
            # a comment at the top level of the call runs to the end of its line (commas in it separate nothing);
            # an argument may consist of nothing but a comment: it is text like any other
            a, trail = rnd.choice(["# only a comment", "#", "# c (", "x  # trailing"]), "\n" + rnd.choice(["", " ", "    "])
        elif r < 0.1:
            a = a + rnd.choice(["\xa0", "\u200b", " \x0b"]) + "z"  # characters that are no token at all are text too
        args.append(lead + a + trail)
    trailing = rnd.choice(["", "", ",", ", ", " ,"])
    if trailing == " ,":
        args[-1] += " "
        trailing = ","
    text = callee + "!(" + ",".join(args) + trailing + ")"
    ctx = rnd.choice(MACRO_CONTEXTS)
    return {"macro": text, "callee": callee, "args": args, "ctx": ctx}


PROC_REST_ATOMS = ["a", "-l", "--x=1", "'q r'", '"s,t"', "1", "b/c", "&&", "|", ">", "if", "import", "$X", "*.py", ";", "x=y", "é", "..", "h",
                   "{a}", "${x}", 'f"a{b}"', "→", "`a*`", "ﬁx", "# c\n", "{'k': [1, (2)]}", "@(f!(a b, c))", "x?", "2>&1", "\"(\"", "p'/t'", "$(ls)", "@$(which ls)", "@$(a @$(b))", "@(x)", "![q]", "$[r s]", "!(t)", "a@$(u)b"]


def proc_rest(rnd, d=0) -> str:
    parts = []
    for _ in range(rnd.randint(0, 5)):
        r = rnd.random()
        if r < 0.8 or d >= 3:
            parts.append(rnd.choice(PROC_REST_ATOMS))
        else:
            o, c = rnd.choice([("(", ")"), ("[", "]"), ("{", "}"), ("(", ")"), ("[", "]"), ("$(", ")"), ("@$(", ")"), ("@(", ")"), ("![", "]"), ("$[", "]"), ("!(", ")"), ("${", "}")])
            parts.append(o + proc_rest(rnd, d + 1) + c)
    out = ""
    for p in parts:
        # (the separator may be a line end: the macro's bracket keeps the text going, and the text is passed on verbatim)
        out += (rnd.choice([" ", "  ", "\t", "   ", " ", "  ", "\n", "\n    ", " \n"]) if out else "") + p
    return out


def proc_macro_case(rnd):
    o, c, fn = rnd.choice(SUBPROC_FORMS)
    pre = [rnd.choice(["sudo", "env", "-n", "time"]) for _ in range(rnd.choice([0, 0, 1, 2]))]
    cmd = rnd.choice(["echo", "bash", "git", "python3", "ls"])
    rest = proc_rest(rnd)
    lead = rnd.choice([" ", " ", "  ", "\t", "", "\n    ", " \n"])
    if rest[:1] in ("(", "[", "!"):
        lead = lead or " "  # 'cmd!(' / 'cmd![' would be another construct
    trail = rnd.choice(["", "", " ", "  ", "\n", " \n  "])
    if rest == "" and rnd.random() < 0.5:
        lead = trail = ""  # a bare 'cmd!' with nothing at all after the bang
    text = o + "".join(p + " " for p in pre) + cmd + "!" + lead + rest + trail + c
    follow = rnd.choice(["", "", "after = [n for n in m if n]\n", "x = 1\ny = f(a, b)\n", "if t:\n    u = 2\n"])
    return {"text": text, "fn": fn, "pre": pre, "cmd": cmd, "rest": rest, "follow": follow}


BLOCK_LINES = ["a b c", "x = 1", "if y:", "echo $HOME > out.txt", "for i in (1,\n  2):", "s = '''t\nu'''", "# comment", "", "ls -la | grep 'x y'", "def f(a, b=[1, 2]): pass", "print(\"it's\")", "with q as t:", "else:", "{'k': v}", "]unbalanced[" if False else "z = (1, 2)"]


def with_block(rnd, ind: str, depth=0) -> list[str]:
    """lines (without newline) of a block body, each indented at least by ind"""
    lines = []
    for _ in range(rnd.randint(1, 4)):
        r = rnd.random()
        if r < 0.6 or depth >= 2:
            ln = rnd.choice(["s = 'x\fy'", "t = 'p\x1cq'  # r\x85s", "u = '\u2028'", "a b c", "x = 1", "echo $HOME > out.txt", "ls -la | grep 'x y'", "print(\"it's\")", "z = (1, 2)", "import os", "{'k': v}", "pass", "git commit -m 'm n'"])
            lines.append(ind + ln)
        elif r < 0.7:
            # (a comment may sit at any column, also to the left of the block it is in -- not as the block's first line,
            # which sets the block's indentation, and not as its last, where it would read as the next statement's)
            cind = rnd.choice([ind, ind, ind, ind[: len(ind) // 2], "", ind + " "]) if lines and depth == 0 else ind
            lines.append(cind + rnd.choice(["# comment", "#c, (", "# 'quote"]))
        elif r < 0.78 and lines:
            lines.append(rnd.choice(["", "", ind, "   "]) if True else "")
        elif r < 0.84:
            lines.append(ind + "v = [1,")
            lines.append(rnd.choice([ind + "     2,", "  2,", ind + "# c", ind + "  3,"]))
            lines.append(ind + "     4]")
        elif r < 0.9:
            # a triple-quoted string over 2..4 physical lines, first on its line or after other tokens; its
            # interior and closing lines carry any indentation (the body is the physical lines, verbatim)
            q = rnd.choice(['"""', "'''"])
            opener = rnd.choice(["", "s = ", "f(", "r", "s = f"])
            lines.append(ind + opener + q + rnd.choice(["doc", "", "t {x}", "a b"]))
            for _ in range(rnd.randrange(0, 3)):
                lines.append(rnd.choice([ind, "", ind + "  ", " "]) + rnd.choice(["mid", "x = 1", "# not a comment", "if y:"]))
            closing = rnd.choice([ind, "", ind + "  "]) + rnd.choice(["string", "", "u"]) + q + (")" if opener == "f(" else "")
            lines.append(closing + rnd.choice(["", "", "  # c", ".strip()"]))
        else:
            lines.append(ind + rnd.choice(["if y:", "for i in j:", "with q as t:", "def g():", "else:", "while k:"]))
            lines.extend(with_block(rnd, ind + rnd.choice(["    ", "  ", "\t"] if "\t" not in ind else ["\t"]), depth + 1))
    # a block never ends in blank lines here (trailing blanks are added by the caller)
    while lines and (lines[-1].strip() == "" or (lines[-1].lstrip().startswith("#") and not lines[-1].startswith(ind))):
        lines.pop()
    if depth == 0 and rnd.random() < 0.15:
        lines.insert(0, rnd.choice(["", ind + "# leading comment", "   "]))
    if not any(ln.strip() and not ln.strip().startswith("#") for ln in lines):
        lines.append(ind + "pass")  # a block of comments only is no block
    return lines


def with_macro_case(rnd):
    outer = rnd.choice(["", "", "if c:\n", "def h():\n", "for u in w:\n    if c:\n"])
    base = "" if not outer else ("    " if outer.count("\n") == 1 else "        ")
    ctxmgr = rnd.choice(["x", "ctx()", "a.b", "m(1, 2)"])
    as_ = rnd.choice(["", "", " as y", " as (p, q)"])
    head = f"{base}with! {ctxmgr}{as_}:"
    one_line = rnd.random() < 0.25
    if one_line:
        body = rnd.choice(["pass", "x = 42; y = 12", "echo $PATH", "ls -l | wc", "[1,\n    2,\n    3]", "a b c  # note", "export A='b c'"])
        body = rnd.choice([" ", "  ", "\t"]) + body  # the rest of the line after the colon, verbatim
        text = outer + head + body + "\n"
        block_lines = None
    else:
        unit = rnd.choice(["    ", "  ", "\t", "      "])
        ind = base + unit if "\t" not in base + unit or (base + unit).strip(" ") == (base + unit) or True else base + "    "
        block_lines = with_block(rnd, ind)
        # (blanks or a comment may follow the colon, as after any block header)
        text = outer + head + rnd.choice(["", "", "", "", " ", "  # note", "\t", " #c: d"]) + "\n" + "\n".join(block_lines) + "\n"
        body = None
    blanks = rnd.choice([0, 0, 1, 2, 3])
    follow = rnd.choice(["", "after = 1\n", "print(x)\n", "if t:\n    u = 2\n", "$Y = 3\n"])
    if follow and base:
        follow = "".join(base + ln + "\n" for ln in follow.rstrip("\n").split("\n"))
    text += "\n" * blanks + follow
    if not follow and rnd.random() < 0.3:
        text = text.rstrip("\n")
    return {"src": text, "one_line": one_line, "body": body, "block": block_lines, "blanks": blanks, "follow": follow, "base": base, "outer": outer}
