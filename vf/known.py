"""Known findings: narrow predicates over (case, failure signature, detail).

known_findings.json is read-only for the checks.  A failure that matches no open finding of the
property is a VIOLATION.  `fixed` entries suppress nothing.
"""

from __future__ import annotations

import json
import os
import re

from .common import VERIF_DIR

_PATH = os.path.join(VERIF_DIR, "known_findings.json")
_cache = None

MATCHERS = {}


def matcher(fn):
    MATCHERS[fn.__name__] = fn
    return fn


def load():
    global _cache
    if _cache is None:
        if os.path.exists(_PATH):
            with open(_PATH) as f:
                _cache = json.load(f)
        else:
            _cache = {"findings": [], "fixed": []}
    return _cache


def open_findings(pid: str):
    return [f for f in load()["findings"] if f.get("status", "open") == "open" and pid in f["properties"]]


def _import_all_props():
    import glob
    import importlib

    for p in sorted(glob.glob(os.path.join(VERIF_DIR, "vf", "props", "c*.py"))):
        importlib.import_module("vf.props." + os.path.basename(p)[:-3])


def classify(pid: str, case, signature: str, detail):
    if os.environ.get("VERIF_NO_KNOWN"):
        return None
    for f in open_findings(pid):
        m = f["matcher"]
        fn = MATCHERS.get(m["name"])
        if fn is None:
            _import_all_props()
            fn = MATCHERS.get(m["name"])
        if fn is None:
            raise RuntimeError(f"known_findings.json names unknown matcher {m['name']}")
        try:
            ok = fn(case, signature, detail, **m.get("params", {}))
        except Exception:
            ok = False
        if ok:
            return f["id"]
    return None


# ----------------------------------------------------------------------------------------------
# matchers (each as narrow as the root cause allows)


def _src(case) -> str:
    return case.get("src", "") if isinstance(case, dict) else ""


@matcher
def signature_and_src_regex(case, signature, detail, sig_regex, src_regex, field="src"):
    """failure signature matches sig_regex and the input text matches src_regex"""
    text = case.get(field, "") if isinstance(case, dict) else ""
    return re.search(sig_regex, signature) is not None and re.search(src_regex, text, re.S) is not None


LONE_BACKSLASH = re.compile(r"(?m)^[ \t\f]*\\\r?\n")


@matcher
def continuation_first_on_line(case, signature, detail, sig_regex=".*"):
    """D40: some physical line's first non-blank character is a backslash continuation"""
    return LONE_BACKSLASH.search(_src(case)) is not None and re.match(sig_regex, signature) is not None


@matcher
def comment_after_continuation_at_eof(case, signature, detail, sig_regex=".*"):
    """D41: input ends, without newline, in a comment line that continues a backslash-continued statement"""
    src = _src(case)
    lines = src.split("\n")
    if len(lines) < 2 or not lines[-1].strip().startswith("#"):
        return False
    return lines[-2].rstrip("\r").endswith("\\") and re.match(sig_regex, signature) is not None
