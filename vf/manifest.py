"""Generates MANIFEST.json from the table below:  python -m vf.manifest"""

from __future__ import annotations

import json
import os

from .common import VERIF_DIR

CHECKS = {
    "C01": dict(
        technique="differential property-based testing against CPython's ast.parse: grammar-generated programs, layout variants, corpus statements; field-by-field and span-by-span tree comparison",
        text="Exploration: every generated/corpus Python text CPython accepts (inside the property's domain) must give a tree equal to ast.parse's in node classes, field values and all four position attributes, in exec and eval mode. Held on everything generated except the listed finding D7 (non-ASCII columns).",
        note="Reference = the CPython 3.12 running the check. The comparison is my own recursive astdiff (not ast.dump). Domain exclusions ('@(', BOM/NUL, nesting>50; f-strings are in the domain, with C10's normalisation of the reference's format-spec artefacts) are counted in the evidence. One program of >= 100 000 tokens is part of every run.",
        ref="DESIGN.md §4 C01",
    ),
    "C09": dict(
        technique="differential property-based testing against CPython's tokenize: generated programs, layout variants, corpus, and systematic lexical fragments (numbers, strings, all operator-token pairs/triples, indentation structures)",
        text="Exploration: on every generated text CPython's tokenize accepts (no xonsh-only characters, no '@('; an f-string counts as one opaque token from prefix to closing quote on both sides, its inside is C10's), the significant token sequence must equal CPython's in kind, text and coordinates (structural tokens: kind at the same index). Operator pairs are enumerated exhaustively in the quick tier, triples in the thorough tier. Held except the listed findings D23, D24, D40.",
        note="Reference = tokenize.generate_tokens of the running CPython 3.12; reference tokens whose coordinates contradict their own text (a CPython bug after non-ASCII text) are excluded and counted.",
        ref="DESIGN.md §4 C09",
    ),
    "C10": dict(
        technique="differential property-based testing against CPython's ast.parse and tokenize on f-string literals drawn from a feature grammar (prefix x quote x text kinds x field forms x specs x nesting x adjacency) plus all corpus f-strings",
        text="Exploration: for every generated statement CPython accepts, the tree (values and spans) must equal ast.parse's and the token stream (incl. FSTRING_START/MIDDLE/END) must equal tokenize's. Feature histogram in the evidence. Held except listed finding D7 (non-ASCII columns).",
        note="Reference artefacts are normalised and documented: empty Constant('') CPython 3.12.1 appends to specs ending in a nested field, zero-width/split FSTRING_MIDDLE tokens, token comparison skipped for doubled braces; '#' inside a '=' debug field and '!=' before '=' are excluded because the reference itself is wrong there.",
        ref="DESIGN.md §4 C10",
    ),
    "C11": dict(
        technique="property-based testing of the error path: mutated/truncated programs and ~170 targeted syntax errors wrapped in generated layouts, checked against a validity predicate over (exception, source text)",
        text="Exploration: every SyntaxError/IndentationError raised for a generated rejected input must carry msg, filename, 1<=lineno<=nlines+1, 1<=offset<=len(line)+1, an end position >= start, and a text starting with the reported source line. Histogram by raising site shows which raise_* helpers, tokenizer and literal-evaluation paths were reached. Held on everything generated.",
        note="The predicate is the property's own wording; text is compared modulo trailing whitespace. A fifth of the inputs also goes through parse_file on one path that is rewritten for every case (error text re-read from the file). TokenError outcomes are outside C11.",
        ref="DESIGN.md §4 C11",
    ),
    "C12": dict(
        technique="differential property-based testing across entry points and process environments: generated file contents (valid/invalid, ASCII/non-ASCII, LF/CRLF/CR) are parsed by parse_file and parse_string inside child interpreters started under five locale/UTF-8-mode configurations; canonical outcomes are compared within and across children",
        text="Exploration over inputs x configurations: the two entry points must agree (tree with positions, or exception class/message/position/text) in every environment and every environment must agree with the UTF-8 one. Held on everything generated after two fixes.",
        note="A Latin-1 locale cannot be instantiated in the sandbox; the ASCII configuration (LC_ALL=C, PYTHONUTF8=0, PYTHONCOERCECLOCALE=0) stands in for 'non-UTF-8 default'. The actual preferred encodings of the children are recorded in the evidence.",
        ref="DESIGN.md §4 C12",
    ),
    "C13": dict(
        technique="stateful (model-based) property testing: a Hypothesis RuleBasedStateMachine drives sequences of parse / parse_file / threaded-parse / keep steps over a pool of inputs in one process; the model is the table of outcomes computed in fresh interpreters",
        text="Exploration over call histories and sampled thread schedules: every result must equal the fresh-interpreter reference, kept trees must re-dump identically after every later step, module singletons must stay attribute-free. Histories of one worker share a process, so state also carries across histories. Held on everything generated; thread interleavings are sampled, not enumerated.",
        note="Reference outcomes come from batched fresh interpreters, cross-checked against one-parse-per-process for a sample. Schedules are varied through thread count, start barrier and sys.setswitchinterval only. Interpreter-wide settings (recursion limit, cwd, locale, warnings filters, stdout/stderr, environment, trace hooks, thread count) are an invariant; half of the threaded steps run at the default recursion limit.",
        ref="DESIGN.md §4 C13",
    ),
    "C14": dict(
        technique="metamorphic property-based testing: random lists of complete statement sequences (generated Python, corpus, f-strings, every xonsh statement form incl. generated macros); parse(concatenation) must equal the line-shifted concatenation of the parts' own parses, with positions",
        text="Exploration: the relation between whole and parts is the oracle, so xonsh statements are checkable without a reference parser. Histogram over ordered pairs of statement kinds in the evidence. Held on everything generated.",
        note="Parts that do not parse alone are discarded (counted). Parts never start with a blank/comment line because the suite documents that such a line after a with-macro block belongs to the macro.",
        ref="DESIGN.md §4 C14",
    ),
    "C15": dict(
        technique="metamorphic property-based testing over the option space: every generated input (valid, invalid, xonsh, version-gated) is parsed in all 28 cells of verbose x py_version x mode and the canonical outcomes are related (verbose vs quiet equality; monotone version gating derived from the default tree)",
        text="Exploration: verbose never changes the outcome; lowering py_version only turns acceptance of except*/type parameters/type statements into a SyntaxError naming the required version; rejected inputs stay rejected in every cell. Held on everything generated.",
        note="The gate of an input is computed from its default tree (TypeAlias / type_params -> 3.12, TryStar -> 3.11). Verbose output is discarded by redirecting sys.stdout (for non-ASCII sources into a stream that only accepts ASCII, as a terminal under LC_ALL=C). Gated programs and a sixth of the others also go through parse_file in every py_version cell; long chains are traced under the default recursion limit.",
        ref="DESIGN.md §4 C15",
    ),
    "C16": dict(
        category="translation_validation",
        technique="translation validation by regeneration: both generators are re-run from the working tree's grammars under several PYTHONHASHSEED values and the outputs are compared with each other (byte-wise) and with the shipped modules (per-rule AST comparison)",
        text="Translation validation of the two shipped (grammar, generated parser) pairs: every rule method of the shipped module must have the same decorators, parameters and body AST as the regenerated one, tables and module-level statements must agree, and generation must be byte-identical across runs and hash seeds. Held.",
        note="Formatting, comments, unused imports and return annotations are ignored as the property allows; the generators themselves are trusted to be the 'documented generation step' (Taskfile.yml without the ruff pass). Generation is also repeated three times inside one interpreter.",
        ref="DESIGN.md §4 C16",
    ),
    "C17": dict(
        technique="model-based differential testing of the parser generator: Hypothesis-drawn well-formed grammars are compiled through the shipped metagrammar parser and the xonsh generator, executed, and compared on ALL token strings up to a length bound with an independent reference PEG interpreter, plus a metamorphic inlined-vs-uninlined comparison of the generator's own output",
        text="Exploration with exhaustive inputs per grammar: for each generated grammar every token string up to the bound is run through the generated parser and the reference interpreter (success/failure/forced error, end position, value). Held on everything generated after four generator fixes.",
        note="The reference interpreter (ordered choice, greedy repetition, cut, forced, keyword exclusion, seed-growing left recursion at pegen's documented SCC leader) is mine; values are compared modulo falsy-equivalence; grammars pegen rejects (GrammarError, no leadership candidate) are discarded and counted.",
        ref="DESIGN.md §4 C17",
    ),
    "C18": dict(
        technique="property-based testing over size-parameterised input families with deterministic work counters (token reads/peeks/resets of a counting Tokenizer subclass): fixed families from the grammar's recursion structure + Hypothesis-drawn wrapper mixtures, valid and invalid; linear bound and doubling-ratio oracle",
        text="Exploration: each family is instantiated at doubling sizes and must satisfy work <= 3000*tokens+20000 and work(2n)/work(n) <= 2.6; no wall-clock is involved so verdicts are reproducible. Decides linearity only for the families generated. Held except the listed finding D42 (quadratic on rejected nested subprocesses).",
        note="Work = getnext/peek/reset calls plus every element handed out by the tokenizer's token cache (counting list). Fixed families are also measured with verbose=True; nests are also placed after a 10 000-token prefix (work added by the nest). The pattern language and thresholds are mine (pinned tree needs 100-600 operations per token).",
        ref="DESIGN.md §4 C18",
    ),
    "C02": dict(
        technique="differential testing against CPython's ast.parse on rejected inputs: exhaustive enumeration of short token sequences over a 40-token vocabulary, the complete single-token-edit neighbourhood of small valid statements, Hypothesis-drawn structured sequences, single-token mutations / all token-aligned prefixes of valid programs, f-string mutations",
        text="Exploration with an exhaustive core: every sequence of <=3 (quick) / <=4 (thorough) vocabulary tokens, plus generated near-valid texts inside the Python lexicon; whenever ast.parse raises SyntaxError the parser must not return a tree. Held except listed findings D21 (TabError), D40 (continuation-first lines) and D46 (number glued to a non-keyword name).",
        note="Reference = ast.parse of the running CPython 3.12. Texts outside the Python lexicon are dropped by a regex and counted; the converse direction is C01.",
        ref="DESIGN.md §4 C02",
    ),
    "C03": dict(
        technique="fuzzing and property-based testing for totality: Hypothesis character soup with dictionary fragments, token/line mutations and all token-aligned prefixes of Python and xonsh seeds, construct-aware mutations of generated xonsh constructs/commands/macros, and coverage-guided atheris/libFuzzer campaigns (empty and seeded corpora) whose target runs the same oracle; failures bucketed by (exception type, innermost peg_parser frame), hangs confirmed in a fresh interpreter",
        text="Exploration: every generated input is pushed through generate_tokens, parse_string (exec and eval) and, for a fraction, parse_file, under a watchdog; the only allowed outcomes are a Module/Expression, SyntaxError or TokenError. Held on everything generated under the harness recursion limit; the default-limit behaviour is listed finding D22.",
        note="Soft 10 s watchdog, hang only if a fresh interpreter also exceeds 50 s. RecursionError counts only below 300 tokens under the raised limit. libFuzzer campaigns are only approximately reproducible; the saved input is the reproducible unit.",
        ref="DESIGN.md §4 C03",
    ),
    "C04": dict(
        technique="property-based testing with a validity predicate: accepted sources from all generators (Python, xonsh models, constructs placed at every expression/target hole) are validated structurally against the ASDL signatures read from ast class docstrings, spans and expression contexts are checked, and compile() is used differentially against compile(ast.unparse(tree))",
        text="Exploration: every tree returned for a generated input must be structurally valid for compile() in its mode; compile() may only reject it (SyntaxError) if the written-out Python is rejected too. Held on everything generated.",
        note="The structural validator is mine (independent of the parser); contexts are computed top-down from parent fields. Inputs the parser rejects are outside C04.",
        ref="DESIGN.md §4 C04",
    ),
    "C05": dict(
        technique="metamorphic/differential property-based testing: a generated xonsh construct is inserted at a Load-position hole of a generated or corpus program (hole chosen on CPython's tree) and the result is compared with ast.parse of the same program with the generator-computed translation written out; span of the construct's node checked separately",
        text="Exploration: (context, hole, construct) triples incl. nested constructs, f-string fields and Store targets; tree equality without positions plus exact span of the construct's node. Histogram of construct kind x parent field in the evidence. Held except listed finding D43 (constructs as attribute/subscript bases inside for/with/comprehension targets).",
        note="The translation table is the documented one (tests/data/exprs, stmts, subheader builders), computed recursively by the generator, never by the parser. Pairs where CPython rejects ctx[translation] or re-reads it as another node class are outside the domain and counted.",
        ref="DESIGN.md §4 C05",
    ),
    "C06": dict(
        technique="model-based property testing: command lines are generated from a word/piece model and the parsed call is compared with a reference splitter that works on the generated pieces (never on tokens); exhaustive short words in the thorough tier",
        text="Exploration: argument count, order, verbatim constants, env lookups, @(..) / @$(..) / nested forms and the runtime function of the bracket form are checked against the model for every generated command line. Held on everything generated.",
        note="The reference splitter and the reserved-word exclusion (conservative regex) are mine; the shape that glues the pieces of a mixed word is not checked because the property does not prescribe it.",
        ref="DESIGN.md §4 C06",
    ),
    "C07": dict(
        technique="model-based property testing: macro calls, subprocess macros and with-macro blocks are generated from structure (token soup with balanced brackets and complete strings; indented blocks) and the captured strings are compared with the generated texts; surrounding code compared with ast.parse of the program with the macro replaced",
        text="Exploration: verbatim argument/body capture for the three macro kinds, in statement contexts and followed by further code. Held on everything generated.",
        note="Expected texts come from the generated structure; an independent character scanner re-derives the call-macro split and mismatches are counted as generator errors, not violations. Backslash continuations inside arguments are not generated.",
        ref="DESIGN.md §4 C07",
    ),
    "C08": dict(
        technique="property-based testing: generated and mutated texts (Hypothesis-driven grammar, corpus, mutation, soup) and a coverage-guided atheris campaign, all against a pure tiling oracle over (text, token list)",
        text="Exploration: every generated text the tokenizer finishes on is checked against an oracle that needs nothing but the text and the token list (slice equality, order, gap shape, NEWLINE/INDENT/DEDENT/ENDMARKER structure). Held on everything generated; no proof.",
        note="Trusts my line-splitting convention (split on \\n only, as StringIO.readline). Inputs on which the tokenizer raises are outside the property; other exceptions are C03's.",
        ref="DESIGN.md §4 C08",
    ),
}

PENDING = {
}


def build():
    checks = []
    for pid in sorted(CHECKS):
        c = CHECKS[pid]
        checks.append(
            {
                "property_id": pid,
                "quick_cmd": f"bin/check {pid} --tier quick",
                "thorough_cmd": f"bin/check {pid} --tier thorough",
                "evidence_file": f"evidence/{pid}.json",
                "replay_cmd_template": f"bin/check {pid} --replay {{path}}",
                "engine": "vf",
                "level_claimed": {"category": c.get("category", "exploration"), "text": c["text"], "design_ref": c["ref"]},
                "level_note": c["note"],
                "technique": c["technique"],
            }
        )
    with open(os.path.join(VERIF_DIR, "properties.jsonl")) as f:
        all_ids = [json.loads(line)["id"] for line in f if line.strip()]
    na = [{"property_id": pid, "reason": PENDING.get(pid, "check not registered yet in this revision of /verif (work in progress, see DESIGN.md §4)")} for pid in all_ids if pid not in CHECKS]
    man = {
        "version": 1,
        "setup_cmd": "bin/setup",
        "hooks": {
            "guard": "XONSH_PARSER_VERIF",
            "enable": "no hooks: checks import peg_parser straight from /repo's working tree (VERIF_REPO overrides the path); counters for C18 come from a Tokenizer subclass passed to the public constructor",
            "baseline_off_cmd": "cd /repo && /venv/bin/python -m pytest -q -p no:cacheprovider",
            "source_commits": [],
            "add_only": True,
        },
        "engines": [
            {
                "name": "vf",
                "path": "vf/",
                "serves_properties": sorted(CHECKS),
                "kind_free_text": "Hypothesis-driven generators + seeded mutation/enumeration + atheris campaigns, explicit oracles (CPython differential, reference models, metamorphic relations), collect-then-shrink (ddmin) to replay files",
            }
        ],
        "checks": checks,
        "not_applicable": na,
        "notes": "bin/check <ID> [--tier quick|thorough] [--replay PATH]; exit 0 held / 1 VIOLATION / 2 harness error. VERIF_SEED selects the run; VERIF_REPO points the checks at another tree. known_findings.json lists genuine defects recorded rather than repaired, and the fix: commits made.",
    }
    if not na:
        man["not_applicable"] = []
    return man


if __name__ == "__main__":
    man = build()
    path = os.path.join(VERIF_DIR, "MANIFEST.json")
    with open(path, "w") as f:
        json.dump(man, f, indent=1)
        f.write("\n")
    try:
        import jsonschema

        with open("/root/.vp/MANIFEST.schema.json") as f:
            jsonschema.validate(man, json.load(f))
        print("MANIFEST.json valid;", len(man["checks"]), "checks,", len(man["not_applicable"]), "not_applicable")
    except ImportError:
        print("written (jsonschema not available)")
